package main

// C03 — private keys never leave the key store and are used only by key id.
// Facts printed here (dumb: what the source says; expectations are Lean theorems in Props/C03.lean):
//   * spi.KidPattern: the regexp/syntax tree of the pattern literal (generic Rx term)
//   * fs / vault storage path construction (format strings, argument expressions, constants)
//   * spi.Storage method inventory and, per method of the validating wrapper, which string parameters are
//     validated by the leading `if err := w.validateKID(x); err != nil { return … }` statements
//   * what validateKID itself tests
//   * every assignment to client.backend in crypto.go and every caller of NewPrivateKey / Link
//   * SignJWS: the order of the header/jwk/sign calls and the static type of the Raw() target
//   * a repo-wide inventory of functions that can obtain or mention a private-key-typed value

import (
	"bytes"
	"fmt"
	"go/ast"
	"go/parser"
	"go/printer"
	"go/token"
	"os"
	"path/filepath"
	"regexp/syntax"
	"sort"
	"strconv"
	"strings"
)

func init() { extractors["C03"] = extractC03 }

func c03Src(fset *token.FileSet, n ast.Node) string {
	if n == nil {
		return ""
	}
	var b bytes.Buffer
	_ = printer.Fprint(&b, fset, n)
	return strings.Join(strings.Fields(b.String()), " ")
}

func c03Bytes(s string) string {
	var q []string
	for _, b := range []byte(s) {
		q = append(q, strconv.Itoa(int(b)))
	}
	return "[" + strings.Join(q, ", ") + "]"
}

func c03BytesList(l []string) string {
	var q []string
	for _, s := range l {
		q = append(q, c03Bytes(s))
	}
	return "[" + strings.Join(q, ", ") + "]"
}

func c03Str(s string) string { return fmt.Sprintf("%q", s) }

func c03Unquote(e ast.Expr) (string, bool) {
	if b, ok := e.(*ast.BasicLit); ok && b.Kind == token.STRING {
		s, err := strconv.Unquote(b.Value)
		return s, err == nil
	}
	return "", false
}

// c03Rx prints a regexp/syntax tree as a Lean term of type Nuts.C03.Rx. Anything the model has no constructor
// for becomes `.unknown_<op>` which does not elaborate.
func c03Rx(r *syntax.Regexp) string {
	subs := func() string {
		var q []string
		for _, s := range r.Sub {
			q = append(q, c03Rx(s))
		}
		return "[" + strings.Join(q, ", ") + "]"
	}
	if r.Flags&syntax.FoldCase != 0 && r.Op == syntax.OpLiteral {
		return ".unknown_foldcase_literal"
	}
	switch r.Op {
	case syntax.OpBeginText:
		return ".bot"
	case syntax.OpEndText:
		return ".eot"
	case syntax.OpCharClass:
		var q []string
		for i := 0; i+1 < len(r.Rune); i += 2 {
			q = append(q, fmt.Sprintf("(%d, %d)", r.Rune[i], r.Rune[i+1]))
		}
		return "(.cls [" + strings.Join(q, ", ") + "])"
	case syntax.OpLiteral:
		var q []string
		for _, c := range r.Rune {
			q = append(q, strconv.Itoa(int(c)))
		}
		return "(.lit [" + strings.Join(q, ", ") + "])"
	case syntax.OpConcat:
		return "(.cat " + subs() + ")"
	case syntax.OpAlternate:
		return "(.alt " + subs() + ")"
	case syntax.OpPlus:
		return "(.plus " + c03Rx(r.Sub[0]) + ")"
	case syntax.OpStar:
		return "(.star " + c03Rx(r.Sub[0]) + ")"
	case syntax.OpQuest:
		return "(.quest " + c03Rx(r.Sub[0]) + ")"
	case syntax.OpRepeat:
		if r.Max < 0 {
			return ".unknown_open_repeat"
		}
		return fmt.Sprintf("(.rep %d %d %s)", r.Min, r.Max, c03Rx(r.Sub[0]))
	case syntax.OpCapture:
		return c03Rx(r.Sub[0]) // capturing does not change the language
	}
	return ".unknown_" + strings.ReplaceAll(r.Op.String(), " ", "_")
}

func c03Tuple(parts ...string) string { return "(" + strings.Join(parts, ", ") + ")" }

func c03StrList(l []string) string {
	q := make([]string, len(l))
	for i, s := range l {
		q[i] = c03Str(s)
	}
	return "[" + strings.Join(q, ", ") + "]"
}

// string-typed parameter names of a function type (ctx etc. are skipped because they are not `string`)
func c03StringParams(ft *ast.FuncType) []string {
	var r []string
	if ft.Params == nil {
		return r
	}
	for _, f := range ft.Params.List {
		if id, ok := f.Type.(*ast.Ident); ok && id.Name == "string" {
			for _, n := range f.Names {
				r = append(r, n.Name)
			}
			if len(f.Names) == 0 {
				r = append(r, "_")
			}
		}
	}
	return r
}

func c03RecvName(fd *ast.FuncDecl) string {
	if fd.Recv == nil || len(fd.Recv.List) == 0 {
		return ""
	}
	t := fd.Recv.List[0].Type
	if s, ok := t.(*ast.StarExpr); ok {
		t = s.X
	}
	if ix, ok := t.(*ast.IndexExpr); ok {
		t = ix.X
	}
	if id, ok := t.(*ast.Ident); ok {
		return id.Name
	}
	return "?"
}

func extractC03() *lean {
	l := newLean("C03", "NutsModel.C03.Types")
	l.sb.WriteString("open Nuts.C03\n")

	// ---------- A. KidPattern
	fsetI, ifc := parseFile("crypto/storage/spi/interface.go")
	pat, patOK := "", false
	ast.Inspect(ifc, func(n ast.Node) bool {
		vs, ok := n.(*ast.ValueSpec)
		if !ok || len(vs.Names) != 1 || vs.Names[0].Name != "KidPattern" || len(vs.Values) != 1 {
			return true
		}
		if call, ok := vs.Values[0].(*ast.CallExpr); ok && exprString(call.Fun) == "regexp.MustCompile" && len(call.Args) == 1 {
			pat, patOK = c03Unquote(call.Args[0])
		}
		return true
	})
	rx := ".unknown_KidPattern_not_found"
	if patOK {
		if re, err := syntax.Parse(pat, syntax.Perl); err == nil {
			rx = c03Rx(re)
		} else {
			rx = ".unknown_KidPattern_does_not_parse"
		}
	}
	l.def("kidPatternSrc", "String", c03Str(pat), pat)
	l.def("kidPatternRx", "Rx", rx, rx)

	// ---------- B. fs backend path construction
	fsetF, fsf := parseFile("crypto/storage/fs/fs.go")
	var entryTypes []string
	for _, d := range fsf.Decls {
		gd, ok := d.(*ast.GenDecl)
		if !ok || gd.Tok != token.CONST {
			continue
		}
		for _, s := range gd.Specs {
			vs := s.(*ast.ValueSpec)
			if id, ok := vs.Type.(*ast.Ident); ok && id.Name == "entryType" {
				for _, v := range vs.Values {
					if sv, ok := c03Unquote(v); ok {
						entryTypes = append(entryTypes, sv)
					} else {
						entryTypes = append(entryTypes, "?"+c03Src(fsetF, v))
					}
				}
			}
		}
	}
	l.def("fsEntryTypesStr", "List String", c03StrList(entryTypes), entryTypes)
	l.def("fsEntryTypes", "List (List Nat)", c03BytesList(entryTypes), nil)
	retExpr := func(fset *token.FileSet, fd *ast.FuncDecl) string {
		if fd == nil || fd.Body == nil || len(fd.Body.List) == 0 {
			return "MISSING"
		}
		var parts []string
		for _, st := range fd.Body.List {
			parts = append(parts, c03Src(fset, st))
		}
		return strings.Join(parts, " ; ")
	}
	l.def("fsEntryFileNameBody", "String", c03Str(retExpr(fsetF, funcDecl(fsf, "getEntryFileName"))), retExpr(fsetF, funcDecl(fsf, "getEntryFileName")))
	l.def("fsEntryPathBody", "String", c03Str(retExpr(fsetF, funcDecl(fsf, "getEntryPath"))), retExpr(fsetF, funcDecl(fsf, "getEntryPath")))
	// every os./filepath. call in fs.go that takes a path: its first argument expression, per function
	var fsPathUses []string
	for _, d := range fsf.Decls {
		fd, ok := d.(*ast.FuncDecl)
		if !ok || fd.Body == nil {
			continue
		}
		ast.Inspect(fd.Body, func(n ast.Node) bool {
			c, ok := n.(*ast.CallExpr)
			if !ok || len(c.Args) == 0 {
				return true
			}
			fn := exprString(c.Fun)
			if strings.HasPrefix(fn, "os.") || fn == "filepath.Walk" {
				if fn == "os.FileMode" {
					return true
				}
				fsPathUses = append(fsPathUses, fd.Name.Name+":"+fn+":"+c03Src(fsetF, c.Args[0]))
			}
			return true
		})
	}
	l.def("fsPathUses", "List String", c03StrList(fsPathUses), fsPathUses)
	// where do the local path variables come from
	var fsPathBindings []string
	for _, d := range fsf.Decls {
		fd, ok := d.(*ast.FuncDecl)
		if !ok || fd.Body == nil {
			continue
		}
		ast.Inspect(fd.Body, func(n ast.Node) bool {
			as, ok := n.(*ast.AssignStmt)
			if !ok || len(as.Lhs) < 1 || len(as.Rhs) != 1 {
				return true
			}
			if id, ok := as.Lhs[0].(*ast.Ident); ok && (id.Name == "filePath" || id.Name == "filenamePath") {
				fsPathBindings = append(fsPathBindings, fd.Name.Name+":"+id.Name+":="+c03Src(fsetF, as.Rhs[0]))
			}
			return true
		})
	}
	l.def("fsPathBindings", "List String", c03StrList(fsPathBindings), fsPathBindings)

	// ---------- C. vault path construction
	fsetV, vf := parseFile("crypto/storage/vault/vault.go")
	vaultName := "?"
	for _, d := range vf.Decls {
		gd, ok := d.(*ast.GenDecl)
		if !ok || gd.Tok != token.CONST {
			continue
		}
		for _, s := range gd.Specs {
			vs := s.(*ast.ValueSpec)
			for i, n := range vs.Names {
				if n.Name == "privateKeyPathName" && i < len(vs.Values) {
					if sv, ok := c03Unquote(vs.Values[i]); ok {
						vaultName = sv
					}
				}
			}
		}
	}
	l.def("vaultKeyPathNameStr", "String", c03Str(vaultName), vaultName)
	l.def("vaultKeyPathName", "List Nat", c03Bytes(vaultName), nil)
	l.def("vaultKeyPathBody", "String", c03Str(retExpr(fsetV, funcDecl(vf, "privateKeyPath"))), retExpr(fsetV, funcDecl(vf, "privateKeyPath")))
	var vaultPathUses []string
	for _, d := range vf.Decls {
		fd, ok := d.(*ast.FuncDecl)
		if !ok || fd.Body == nil {
			continue
		}
		ast.Inspect(fd.Body, func(n ast.Node) bool {
			as, ok := n.(*ast.AssignStmt)
			if !ok || len(as.Lhs) != 1 || len(as.Rhs) != 1 {
				return true
			}
			if id, ok := as.Lhs[0].(*ast.Ident); ok && id.Name == "path" {
				vaultPathUses = append(vaultPathUses, fd.Name.Name+":"+c03Src(fsetV, as.Rhs[0]))
			}
			return true
		})
	}
	l.def("vaultPathBindings", "List String", c03StrList(vaultPathUses), vaultPathUses)

	// ---------- D. Storage interface + wrapper
	var storageMethods []string
	var storageMethodsLean []string
	ast.Inspect(ifc, func(n ast.Node) bool {
		ts, ok := n.(*ast.TypeSpec)
		if !ok || ts.Name.Name != "Storage" {
			return true
		}
		it, ok := ts.Type.(*ast.InterfaceType)
		if !ok {
			return true
		}
		for _, m := range it.Methods.List {
			ft, ok := m.Type.(*ast.FuncType)
			if !ok {
				storageMethods = append(storageMethods, "embed:"+c03Src(fsetI, m.Type))
				continue
			}
			for _, n := range m.Names {
				sp := c03StringParams(ft)
				storageMethods = append(storageMethods, n.Name+"("+strings.Join(sp, ",")+")")
				storageMethodsLean = append(storageMethodsLean, c03Tuple(c03Str(n.Name), c03StrList(sp)))
			}
		}
		return false
	})
	l.def("storageMethods", "List (String × List String)", "["+strings.Join(storageMethodsLean, ", ")+"]", storageMethods)

	fsetW, wf := parseFile("crypto/storage/spi/wrapper.go")
	var wrapLean, wrapRaw []string
	for _, d := range wf.Decls {
		fd, ok := d.(*ast.FuncDecl)
		if !ok || c03RecvName(fd) != "wrapper" || fd.Body == nil {
			continue
		}
		sp := c03StringParams(fd.Type)
		var validated []string
		var fwdNames, fwdArgs []string
		// leading statements of the form `if err := w.validateKID(x); err != nil { return … }`
		i := 0
		for ; i < len(fd.Body.List); i++ {
			is, ok := fd.Body.List[i].(*ast.IfStmt)
			if !ok || is.Init == nil || is.Else != nil {
				break
			}
			as, ok := is.Init.(*ast.AssignStmt)
			if !ok || len(as.Rhs) != 1 {
				break
			}
			call, ok := as.Rhs[0].(*ast.CallExpr)
			if !ok || exprString(call.Fun) != "w.validateKID" || len(call.Args) != 1 {
				break
			}
			if c03Src(fsetW, is.Cond) != "err != nil" || len(is.Body.List) != 1 {
				break
			}
			if _, ok := is.Body.List[0].(*ast.ReturnStmt); !ok {
				break
			}
			validated = append(validated, c03Src(fsetW, call.Args[0]))
		}
		// calls to the wrapped backend anywhere in the body, with the arguments passed on
		ast.Inspect(fd.Body, func(n ast.Node) bool {
			c, ok := n.(*ast.CallExpr)
			if !ok {
				return true
			}
			if fn := exprString(c.Fun); strings.HasPrefix(fn, "w.wrappedBackend.") {
				fwdNames = append(fwdNames, strings.TrimPrefix(fn, "w.wrappedBackend."))
				for _, a := range c.Args {
					fwdArgs = append(fwdArgs, c03Src(fsetW, a))
				}
			}
			return true
		})
		wrapLean = append(wrapLean, c03Tuple(c03Str(fd.Name.Name), c03StrList(sp), c03StrList(validated), c03StrList(fwdNames), c03StrList(fwdArgs)))
		wrapRaw = append(wrapRaw, fd.Name.Name+"("+strings.Join(sp, ",")+") validates ["+strings.Join(validated, ",")+"] then "+strings.Join(fwdNames, ";")+"("+strings.Join(fwdArgs, ",")+")")
	}
	l.def("wrapperMethods", "List (String × List String × List String × List String × List String)", "["+strings.Join(wrapLean, ", ")+"]", wrapRaw)
	// validateKID: the condition under which it returns an error
	vcond := "MISSING"
	var vlits []string
	for _, d := range wf.Decls {
		fd, ok := d.(*ast.FuncDecl)
		if !ok || fd.Name.Name != "validateKID" || fd.Body == nil {
			continue
		}
		var conds []string
		for _, st := range fd.Body.List {
			if is, ok := st.(*ast.IfStmt); ok {
				conds = append(conds, c03Src(fsetW, is.Cond))
				// string literals compared with == against the parameter, joined by || at top level
				var walk func(e ast.Expr)
				walk = func(e ast.Expr) {
					switch x := e.(type) {
					case *ast.ParenExpr:
						walk(x.X)
					case *ast.BinaryExpr:
						if x.Op == token.LOR {
							walk(x.X)
							walk(x.Y)
						} else if x.Op == token.EQL {
							if id, ok := x.X.(*ast.Ident); ok && id.Name == "kid" {
								if s, ok := c03Unquote(x.Y); ok {
									vlits = append(vlits, s)
								}
							}
						}
					}
				}
				walk(is.Cond)
			}
		}
		vcond = strings.Join(conds, " ;; ")
	}
	l.def("validateKIDConds", "String", c03Str(vcond), vcond)
	l.def("validateKIDRefusedNamesStr", "List String", c03StrList(vlits), vlits)
	l.def("validateKIDRefusedNames", "List (List Nat)", c03BytesList(vlits), nil)

	// ---------- E. crypto.go: backend assignments, NewPrivateKey / Link callers
	fsetC, cf := parseFile("crypto/crypto.go")
	var assigns, assignsLean []string
	for _, d := range cf.Decls {
		fd, ok := d.(*ast.FuncDecl)
		if !ok || fd.Body == nil {
			continue
		}
		ast.Inspect(fd.Body, func(n ast.Node) bool {
			as, ok := n.(*ast.AssignStmt)
			if !ok || len(as.Lhs) != 1 || len(as.Rhs) != 1 {
				return true
			}
			if sel, ok := as.Lhs[0].(*ast.SelectorExpr); ok && sel.Sel.Name == "backend" {
				callee, arg := "?"+c03Src(fsetC, as.Rhs[0]), ""
				if c, ok := as.Rhs[0].(*ast.CallExpr); ok {
					callee = exprString(c.Fun)
					if len(c.Args) == 2 {
						arg = c03Src(fsetC, c.Args[1])
					}
				}
				assigns = append(assigns, fd.Name.Name+": backend = "+callee+"(…, "+arg+")")
				assignsLean = append(assignsLean, c03Tuple(c03Str(fd.Name.Name), c03Str(callee), c03Str(arg)))
			}
			return true
		})
	}
	l.def("backendAssignments", "List (String × String × String)", "["+strings.Join(assignsLean, ", ")+"]", assigns)

	// New: the key name expression
	newKeyName := "MISSING"
	if fd := c03Method(cf, "Crypto", "New"); fd != nil {
		ast.Inspect(fd.Body, func(n ast.Node) bool {
			as, ok := n.(*ast.AssignStmt)
			if ok && len(as.Lhs) == 1 && len(as.Rhs) == 1 {
				if id, ok := as.Lhs[0].(*ast.Ident); ok && id.Name == "keyName" {
					newKeyName = c03Src(fsetC, as.Rhs[0])
				}
			}
			return true
		})
	}
	l.def("newKeyNameExpr", "String", c03Str(newKeyName), newKeyName)

	// ---------- G. SignJWS: order of the relevant calls, type of the Raw() target
	fsetJ, jf := parseFile("crypto/jwx.go")
	var signSeq []string
	rawTargetType := "MISSING"
	if fd := funcDecl(jf, "SignJWS"); fd != nil && fd.Recv == nil {
		c03SignSeq(fsetJ, fd, &signSeq, &rawTargetType)
	} else {
		for _, d := range jf.Decls { // funcDecl returns the first of that name (the method); find the package-level one
			if fd, ok := d.(*ast.FuncDecl); ok && fd.Name.Name == "SignJWS" && fd.Recv == nil {
				c03SignSeq(fsetJ, fd, &signSeq, &rawTargetType)
			}
		}
	}
	l.def("signJWSSeq", "List String", c03StrList(signSeq), signSeq)
	// package-level SignJWT: convertHeaders, the jwk guard (Raw into which type, refusal), jwt.Sign — in source order
	var jwtSeq []string
	for _, d := range jf.Decls {
		fd, ok := d.(*ast.FuncDecl)
		if !ok || fd.Name.Name != "SignJWT" || fd.Recv != nil {
			continue
		}
		types := map[string]string{}
		ast.Inspect(fd.Body, func(n ast.Node) bool {
			if vs, ok := n.(*ast.ValueSpec); ok && vs.Type != nil {
				for _, nm := range vs.Names {
					types[nm.Name] = c03Src(fsetJ, vs.Type)
				}
			}
			return true
		})
		type ev struct {
			pos token.Pos
			s   string
		}
		var evs []ev
		ast.Inspect(fd.Body, func(n ast.Node) bool {
			switch x := n.(type) {
			case *ast.CallExpr:
				fn := exprString(x.Fun)
				switch {
				case fn == "convertHeaders", fn == "jwt.Sign", fn == "hdr.JWK":
					evs = append(evs, ev{x.Pos(), fn})
				case strings.HasSuffix(fn, ".Raw") && len(x.Args) == 1:
					arg := c03Src(fsetJ, x.Args[0])
					evs = append(evs, ev{x.Pos(), fn + "(" + arg + "):" + types[strings.TrimPrefix(arg, "&")]})
				}
			case *ast.ReturnStmt:
				if len(x.Results) == 2 {
					if c, ok := x.Results[1].(*ast.CallExpr); ok && exprString(c.Fun) == "errors.New" {
						evs = append(evs, ev{x.Pos(), "return-error " + c03Src(fsetJ, c.Args[0])})
					}
				}
			}
			return true
		})
		sort.Slice(evs, func(i, j int) bool { return evs[i].pos < evs[j].pos })
		for _, e := range evs {
			jwtSeq = append(jwtSeq, e.s)
		}
	}
	l.def("signJWTSeq", "List String", c03StrList(jwtSeq), jwtSeq)
	l.def("signJWSRawTargetType", "String", c03Str(rawTargetType), rawTargetType)
	// the Crypto.SignJWS / SignJWT / SignDPoP / DecryptJWE / Decrypt / Resolve methods: how they obtain the key
	var keyObt, keyObtLean []string
	for _, rel := range []string{"crypto/jwx.go", "crypto/dpop.go", "crypto/decryptor.go", "crypto/crypto.go", "crypto/memory.go"} {
		fs2, f2 := parseFile(rel)
		for _, d := range f2.Decls {
			fd, ok := d.(*ast.FuncDecl)
			if !ok || fd.Body == nil {
				continue
			}
			var calls []string
			ast.Inspect(fd.Body, func(n ast.Node) bool {
				c, ok := n.(*ast.CallExpr)
				if !ok {
					return true
				}
				fn := exprString(c.Fun)
				if strings.HasSuffix(fn, ".getPrivateKey") || strings.HasSuffix(fn, ".GetPrivateKey") || strings.HasSuffix(fn, ".findKeyReferenceByKid") {
					var args []string
					rest := c.Args
					if len(rest) > 0 {
						rest = rest[1:] // skip ctx
					}
					for _, a := range rest {
						args = append(args, c03Src(fs2, a))
					}
					calls = append(calls, fn[strings.LastIndex(fn, ".")+1:]+"("+strings.Join(args, ",")+")")
				}
				return true
			})
			if len(calls) > 0 {
				name := fd.Name.Name
				if r := c03RecvName(fd); r != "" {
					name = r + "." + name
				}
				keyObt = append(keyObt, name+": "+strings.Join(calls, " ; "))
				keyObtLean = append(keyObtLean, c03Tuple(c03Str(name), c03StrList(calls)))
			}
		}
	}
	l.def("keyLookups", "List (String × List String)", "["+strings.Join(keyObtLean, ", ")+"]", keyObt)

	// ---------- key types the stores can hold: what util.PemToPrivateKey can return, what spi.GenerateKeyPair returns
	fsetP, pf := parseFile("crypto/util/pem.go")
	var pemTypes, pemParsers []string
	if fd := funcDecl(pf, "PemToPrivateKey"); fd != nil {
		ast.Inspect(fd.Body, func(n ast.Node) bool {
			switch x := n.(type) {
			case *ast.TypeSwitchStmt:
				for _, c := range x.Body.List {
					for _, t := range c.(*ast.CaseClause).List {
						pemTypes = append(pemTypes, c03Src(fsetP, t))
					}
				}
			case *ast.CallExpr:
				if fn := exprString(x.Fun); strings.HasPrefix(fn, "x509.Parse") {
					pemParsers = append(pemParsers, fn)
				}
			}
			return true
		})
	}
	l.def("pemPrivateKeyTypes", "List String", c03StrList(pemTypes), pemTypes)
	l.def("pemPrivateKeyParsers", "List String", c03StrList(pemParsers), pemParsers)
	genType := "MISSING"
	if fd := funcDecl(ifc, "GenerateKeyPair"); fd != nil && fd.Type.Results != nil && len(fd.Type.Results.List) > 0 {
		genType = c03Src(fsetI, fd.Type.Results.List[0].Type)
	}
	l.def("generateKeyPairType", "String", c03Str(genType), genType)

	// ---------- H. formatting of key-typed variables in error / log / string-building calls under crypto/
	c03FormatSites(l)

	// ---------- F. repo-wide inventory
	c03Inventory(l)

	// ---------- I. crypto REST wrapper (deepening round): validate() check lists, status table, handler steps
	c03ApiFacts(l)
	c03DpopFacts(l)
	c03FsListFacts(l)
	c03ExternalFacts(l)
	c03ConfigFacts(l)
	c03ExportFacts(l)
	c03PemFacts(l)
	c03MemoryFacts(l)
	return l
}

func c03Method(f *ast.File, recv, name string) *ast.FuncDecl {
	for _, d := range f.Decls {
		if fd, ok := d.(*ast.FuncDecl); ok && fd.Name.Name == name && c03RecvName(fd) == recv {
			return fd
		}
	}
	return nil
}

// c03SignSeq lists, in source order, the calls in SignJWS that matter for the jwk-header rule.
func c03SignSeq(fset *token.FileSet, fd *ast.FuncDecl, seq *[]string, rawType *string) {
	type ev struct {
		pos token.Pos
		s   string
	}
	var evs []ev
	ast.Inspect(fd.Body, func(n ast.Node) bool {
		switch x := n.(type) {
		case *ast.CallExpr:
			fn := exprString(x.Fun)
			switch {
			case fn == "headers.Set", fn == "headers.Remove", fn == "jws.Sign", fn == "headers.JWK().Raw":
				arg := ""
				if len(x.Args) > 0 {
					arg = c03Src(fset, x.Args[0])
				}
				if fn == "jws.Sign" {
					arg = ""
				}
				evs = append(evs, ev{x.Pos(), fn + "(" + arg + ")"})
			}
		case *ast.IfStmt:
			evs = append(evs, ev{x.Pos(), "if " + c03Src(fset, x.Cond)})
		case *ast.ReturnStmt:
			if len(x.Results) == 2 {
				if c, ok := x.Results[1].(*ast.CallExpr); ok && exprString(c.Fun) == "errors.New" {
					evs = append(evs, ev{x.Pos(), "return-error " + c03Src(fset, c.Args[0])})
				}
			}
		case *ast.DeclStmt:
			if gd, ok := x.Decl.(*ast.GenDecl); ok {
				for _, s := range gd.Specs {
					if vs, ok := s.(*ast.ValueSpec); ok && len(vs.Names) == 1 && vs.Names[0].Name == "jwkAsPrivateKey" {
						*rawType = c03Src(fset, vs.Type)
					}
				}
			}
		}
		return true
	})
	sort.Slice(evs, func(i, j int) bool { return evs[i].pos < evs[j].pos })
	for _, e := range evs {
		*seq = append(*seq, e.s)
	}
}

// ---------------------------------------------------------------------------------------------------------
// inventory: every function in the repository's non-_test.go files that can obtain or mention a private-key
// typed value. Name based (go/ast, import table resolved), conservative on method names.

var c03PrivTypes = map[string][]string{ // import path -> type names
	"crypto":         {"Signer", "PrivateKey", "Decrypter"},
	"crypto/ecdsa":   {"PrivateKey"},
	"crypto/rsa":     {"PrivateKey"},
	"crypto/ed25519": {"PrivateKey"},
	"crypto/ecdh":    {"PrivateKey"},
}
var c03GenFuncs = map[string][]string{
	"crypto/ecdsa":   {"GenerateKey"},
	"crypto/rsa":     {"GenerateKey", "GenerateMultiPrimeKey"},
	"crypto/ed25519": {"GenerateKey", "NewKeyFromSeed"},
	"crypto/ecdh":    {"GenerateKey"},
}
var c03CodecFuncs = map[string][]string{
	"crypto/x509": {"MarshalPKCS8PrivateKey", "MarshalECPrivateKey", "MarshalPKCS1PrivateKey", "ParsePKCS8PrivateKey", "ParseECPrivateKey", "ParsePKCS1PrivateKey"},
	"crypto/tls":  {"LoadX509KeyPair", "X509KeyPair"},
}

// by bare name (any receiver / package): the nuts-node functions that hand out or encode private keys
var c03NutsNames = map[string]string{
	"GetPrivateKey": "getpriv", "getPrivateKey": "getpriv",
	"GenerateKeyPair": "gen", "GenerateJWK": "gen", "GenerateAndStore": "gen", "NewPrivateKey": "gen",
	"PrivateKeyToPem": "codec", "PemToPrivateKey": "codec", "SavePrivateKey": "store",
}

func c03In(l []string, s string) bool {
	for _, x := range l {
		if x == s {
			return true
		}
	}
	return false
}

type c03Fn struct {
	file, name string
	exported   bool
	kinds      map[string]bool
	results    []string
	privRes    []string
}

func c03Inventory(l *lean) {
	var files []string
	_ = filepath.Walk(repo, func(p string, info os.FileInfo, err error) error {
		if err != nil {
			return nil
		}
		if info.IsDir() {
			b := info.Name()
			if p != repo && (strings.HasPrefix(b, ".") || b == "docs" || b == "vendor" || b == "node_modules" || b == "e2e-tests" || b == "development") {
				return filepath.SkipDir
			}
			return nil
		}
		if strings.HasSuffix(p, ".go") && !strings.HasSuffix(p, "_test.go") && !strings.HasPrefix(info.Name(), "zz_verif") {
			files = append(files, p)
		}
		return nil
	})
	sort.Strings(files)
	var fns []c03Fn
	nFiles, nFuncs := 0, 0
	for _, p := range files {
		fset := token.NewFileSet()
		f, err := parser.ParseFile(fset, p, nil, 0)
		if err != nil {
			continue
		}
		nFiles++
		rel, _ := filepath.Rel(repo, p)
		imports := map[string]string{} // local name -> path
		for _, im := range f.Imports {
			path, _ := strconv.Unquote(im.Path.Value)
			name := path[strings.LastIndex(path, "/")+1:]
			if im.Name != nil {
				name = im.Name.Name
			}
			imports[name] = path
		}
		qual := func(e ast.Expr) (string, string, bool) { // pkgpath, name
			sel, ok := e.(*ast.SelectorExpr)
			if !ok {
				return "", "", false
			}
			id, ok := sel.X.(*ast.Ident)
			if !ok {
				return "", "", false
			}
			path, ok := imports[id.Name]
			if !ok {
				return "", "", false
			}
			return path, sel.Sel.Name, true
		}
		typeStr := func(e ast.Expr) string {
			s := c03Src(fset, e)
			// resolve std crypto qualifiers so that `crypto.Signer` of the std lib is recognisable
			ast.Inspect(e, func(n ast.Node) bool {
				if x, ok := n.(ast.Expr); ok {
					if path, name, ok := qual(x); ok {
						if tl, ok := c03PrivTypes[path]; ok && c03In(tl, name) {
							s = strings.ReplaceAll(s, c03Src(fset, x), "std:"+path+"."+name)
						}
					}
				}
				return true
			})
			return s
		}
		for _, d := range f.Decls {
			fd, ok := d.(*ast.FuncDecl)
			if !ok {
				continue
			}
			nFuncs++
			kinds := map[string]bool{}
			ast.Inspect(fd, func(n ast.Node) bool {
				switch x := n.(type) {
				case *ast.SelectorExpr:
					if path, name, ok := qual(x); ok {
						if tl, ok := c03PrivTypes[path]; ok && c03In(tl, name) {
							kinds["type"] = true
						}
						if tl, ok := c03GenFuncs[path]; ok && c03In(tl, name) {
							kinds["gen"] = true
						}
						if tl, ok := c03CodecFuncs[path]; ok && c03In(tl, name) {
							kinds["codec"] = true
						}
					}
				case *ast.CallExpr:
					name := ""
					switch fx := x.Fun.(type) {
					case *ast.SelectorExpr:
						name = fx.Sel.Name
						// session wallet key: <…>.Wallet.Key()
						if inner, ok := fx.X.(*ast.SelectorExpr); ok && name == "Key" && inner.Sel.Name == "Wallet" {
							kinds["sessionkey"] = true
						}
					case *ast.Ident:
						name = fx.Name
					}
					if k, ok := c03NutsNames[name]; ok {
						kinds[k] = true
					}
				case *ast.CompositeLit:
					// an in-memory signer is built from a private JWK
					switch tx := x.Type.(type) {
					case *ast.SelectorExpr:
						if tx.Sel.Name == "MemoryJWTSigner" {
							kinds["memsigner"] = true
						}
					case *ast.Ident:
						if tx.Name == "MemoryJWTSigner" {
							kinds["memsigner"] = true
						}
					}
				}
				return true
			})
			// the declaration itself
			if k, ok := c03NutsNames[fd.Name.Name]; ok {
				kinds["decl-"+k] = true
			}
			if len(kinds) == 0 {
				continue
			}
			name := fd.Name.Name
			exported := ast.IsExported(name)
			if r := c03RecvName(fd); r != "" {
				name = r + "." + name
				exported = exported && ast.IsExported(r)
			}
			var results []string
			if fd.Type.Results != nil {
				for _, r := range fd.Type.Results.List {
					n := len(r.Names)
					if n == 0 {
						n = 1
					}
					for i := 0; i < n; i++ {
						results = append(results, typeStr(r.Type))
					}
				}
			}
			var privRes []string
			for _, r := range results {
				if strings.Contains(r, "std:") || r == "jwk.Key" || strings.HasSuffix(r, "TestKey") {
					privRes = append(privRes, r)
				}
			}
			fns = append(fns, c03Fn{file: rel, name: name, exported: exported, kinds: kinds, results: results, privRes: privRes})
		}
	}
	var q, raw []string
	for _, fn := range fns {
		ks := sortedKeys(fn.kinds)
		q = append(q, fmt.Sprintf("{ file := %s, path := %s, name := %s, exported := %s, kinds := %s, results := %s, privResults := %s }",
			c03Str(fn.file), c03StrList(strings.Split(fn.file, "/")), c03Str(fn.name), map[bool]string{true: "true", false: "false"}[fn.exported], c03StrList(ks), c03StrList(fn.results), c03StrList(fn.privRes)))
		raw = append(raw, fmt.Sprintf("%s:%s exp=%v %v -> %v", fn.file, fn.name, fn.exported, ks, fn.results))
	}
	l.def("keyTouching", "List Fn", "[\n  "+strings.Join(q, ",\n  ")+"]", raw)
	l.def("inventoryFiles", "Nat", strconv.Itoa(nFiles), nFiles)
	l.def("inventoryFuncs", "Nat", strconv.Itoa(nFuncs), nFuncs)
}

// ---------------------------------------------------------------------------------------------------------
// every fmt / errors / logrus call under crypto/ (non-test) that is handed a variable which holds (or may hold) a
// private key: parameters / declarations of a private-key type, results of the key-producing calls, type-switch and
// assertion bindings of such variables. Recorded with the format verb that renders it (%T prints the type only).

var c03KeyProducers = map[string]bool{"GetPrivateKey": true, "getPrivateKey": true, "GenerateKeyPair": true, "GenerateKey": true,
	"PemToPrivateKey": true, "PrivateKeyToPem": true, "ParsePKCS8PrivateKey": true, "ParseECPrivateKey": true, "ParsePKCS1PrivateKey": true,
	"MarshalPKCS8PrivateKey": true, "GenerateJWK": true, "NewKeyFromSeed": true, "ImportECDSA": true}

var c03FormatFuncs = map[string]bool{"Errorf": true, "Sprintf": true, "Sprint": true, "Sprintln": true, "Printf": true, "Println": true, "Print": true,
	"Fprintf": true, "Fprint": true, "Fprintln": true, "Infof": true, "Info": true, "Debugf": true, "Debug": true, "Warnf": true, "Warn": true,
	"Warningf": true, "Error": true, "Tracef": true, "Trace": true, "Fatalf": true, "Fatal": true, "Panicf": true, "Panic": true,
	"WithField": true, "WithFields": true, "WithError": true, "Wrap": true, "Wrapf": true, "Join": true, "InvalidInputError": true}

func c03PrivTypeSrc(t string) bool {
	return (strings.Contains(t, "PrivateKey") || strings.Contains(t, "crypto.Signer") || t == "jwk.Key" || strings.Contains(t, "crypto.Decrypter")) && !strings.Contains(t, "PublicKey")
}

func c03Verbs(format string) []string {
	var v []string
	for i := 0; i < len(format); i++ {
		if format[i] != '%' {
			continue
		}
		j := i + 1
		for j < len(format) && strings.ContainsRune("+-# 0123456789.*[]", rune(format[j])) {
			j++
		}
		if j < len(format) {
			if format[j] != '%' {
				v = append(v, format[i:j+1])
			}
			i = j
		}
	}
	return v
}

func c03RootIdent(e ast.Expr) string {
	switch x := e.(type) {
	case *ast.Ident:
		return x.Name
	case *ast.StarExpr:
		return c03RootIdent(x.X)
	case *ast.UnaryExpr:
		return c03RootIdent(x.X)
	case *ast.ParenExpr:
		return c03RootIdent(x.X)
	case *ast.SelectorExpr:
		return c03RootIdent(x.X)
	case *ast.TypeAssertExpr:
		return c03RootIdent(x.X)
	case *ast.IndexExpr:
		return c03RootIdent(x.X)
	}
	return ""
}

func c03FormatSites(l *lean) {
	var files []string
	_ = filepath.Walk(filepath.Join(repo, "crypto"), func(p string, info os.FileInfo, err error) error {
		if err == nil && !info.IsDir() && strings.HasSuffix(p, ".go") && !strings.HasSuffix(p, "_test.go") && !strings.HasPrefix(info.Name(), "zz_verif") &&
			info.Name() != "mock.go" && info.Name() != "generated.go" {
			files = append(files, p)
		}
		return nil
	})
	sort.Strings(files)
	var q, raw []string
	nCalls := 0
	for _, p := range files {
		fset := token.NewFileSet()
		f, err := parser.ParseFile(fset, p, nil, 0)
		if err != nil {
			continue
		}
		rel, _ := filepath.Rel(repo, p)
		for _, d := range f.Decls {
			fd, ok := d.(*ast.FuncDecl)
			if !ok || fd.Body == nil {
				continue
			}
			tainted := map[string]bool{}
			if fd.Type.Params != nil {
				for _, fl := range fd.Type.Params.List {
					if c03PrivTypeSrc(c03Src(fset, fl.Type)) {
						for _, n := range fl.Names {
							tainted[n.Name] = true
						}
					}
				}
			}
			if fd.Recv != nil { // methods of a type that wraps a key (e.g. MemoryJWTSigner: m.Key) are covered by selector roots below
			}
			// two passes so that later bindings of earlier tainted variables are seen
			for pass := 0; pass < 2; pass++ {
				ast.Inspect(fd.Body, func(n ast.Node) bool {
					switch x := n.(type) {
					case *ast.AssignStmt:
						if len(x.Rhs) == 1 {
							taint := false
							switch r := x.Rhs[0].(type) {
							case *ast.CallExpr:
								name := ""
								switch fx := r.Fun.(type) {
								case *ast.SelectorExpr:
									name = fx.Sel.Name
								case *ast.Ident:
									name = fx.Name
								}
								if c03KeyProducers[name] {
									taint = true
								}
								if name == "FromRaw" && len(r.Args) > 0 && tainted[c03RootIdent(r.Args[0])] {
									taint = true
								}
							case *ast.TypeAssertExpr:
								taint = tainted[c03RootIdent(r.X)]
							case *ast.Ident, *ast.UnaryExpr, *ast.StarExpr:
								taint = tainted[c03RootIdent(r)]
							}
							if taint {
								if id, ok := x.Lhs[0].(*ast.Ident); ok && id.Name != "_" {
									tainted[id.Name] = true
								}
							}
						}
					case *ast.TypeSwitchStmt:
						if as, ok := x.Assign.(*ast.AssignStmt); ok && len(as.Rhs) == 1 && tainted[c03RootIdent(as.Rhs[0])] {
							if id, ok := as.Lhs[0].(*ast.Ident); ok {
								tainted[id.Name] = true
							}
						}
					case *ast.ValueSpec:
						if x.Type != nil && c03PrivTypeSrc(c03Src(fset, x.Type)) {
							for _, n := range x.Names {
								tainted[n.Name] = true
							}
						}
					case *ast.RangeStmt:
						if tainted[c03RootIdent(x.X)] {
							if id, ok := x.Value.(*ast.Ident); ok {
								tainted[id.Name] = true
							}
						}
					}
					return true
				})
			}
			if len(tainted) == 0 {
				continue
			}
			fname := fd.Name.Name
			if r := c03RecvName(fd); r != "" {
				fname = r + "." + fname
			}
			ast.Inspect(fd.Body, func(n ast.Node) bool {
				c, ok := n.(*ast.CallExpr)
				if !ok {
					return true
				}
				name := ""
				switch fx := c.Fun.(type) {
				case *ast.SelectorExpr:
					name = fx.Sel.Name
				}
				if !c03FormatFuncs[name] {
					return true
				}
				nCalls++
				var verbs []string
				first := 0
				for i, a := range c.Args {
					if fs, ok := c03Unquote(a); ok && strings.Contains(fs, "%") {
						verbs = c03Verbs(fs)
						first = i + 1
						break
					}
				}
				for i, a := range c.Args {
					// method calls on the key (key.Public(), key.KeyID()) render their result, not the key
					if _, isCall := a.(*ast.CallExpr); isCall {
						continue
					}
					root := c03RootIdent(a)
					if root == "" || !tainted[root] {
						continue
					}
					verb := "%v"
					if verbs != nil && i >= first && i-first < len(verbs) {
						verb = verbs[i-first]
					}
					q = append(q, c03Tuple(c03Str(rel), c03Str(fname), c03Str(exprString(c.Fun)), c03Str(verb), c03Str(c03Src(fset, a))))
					raw = append(raw, fmt.Sprintf("%s:%s %s(%s ← %s)", rel, fname, exprString(c.Fun), verb, c03Src(fset, a)))
				}
				return true
			})
		}
	}
	l.def("keyFormatSites", "List (String × String × String × String × String)", "["+strings.Join(q, ", ")+"]", raw)
	l.def("keyFormatCallsInspected", "Nat", strconv.Itoa(nCalls), nCalls)
}
