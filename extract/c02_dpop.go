package main

// C02 deepening round 3: facts about the resource-server side of the key binding (auth/api/iam/dpop.go ValidateDPoPProof,
// crypto/dpop Match / strip) and the key expressions of the once-only stores. Dumb printing; expectations are fact_* theorems.

import (
	"go/ast"
	"strings"
)

// c02StoreKeyArgs: for every call `<store>().<Method>(args…)` in fn whose folded name ends in callee: "name(arg0)" (the key expression)
func c02StoreKeyArgs(f *ast.File, fn string, callees ...string) []string {
	fd := funcDecl(f, fn)
	if fd == nil {
		return []string{"MISSING:" + fn}
	}
	var r []string
	ast.Inspect(fd, func(n ast.Node) bool {
		c, ok := n.(*ast.CallExpr)
		if !ok || len(c.Args) == 0 {
			return true
		}
		name := callName(c)
		for _, callee := range callees {
			if strings.HasSuffix(name, callee) {
				r = append(r, name+"("+exprFull(c.Args[0])+")")
			}
		}
		return true
	})
	return r
}

// c02Assigns: "lhs = rhs" of every plain assignment statement in fn, source order
func c02Assigns(f *ast.File, fn string) []string {
	fd := funcDecl(f, fn)
	if fd == nil {
		return []string{"MISSING:" + fn}
	}
	var r []string
	ast.Inspect(fd, func(n ast.Node) bool {
		if as, ok := n.(*ast.AssignStmt); ok && len(as.Lhs) == 1 && len(as.Rhs) == 1 && as.Tok.String() == "=" {
			r = append(r, exprFull(as.Lhs[0])+" = "+exprFull(as.Rhs[0]))
		}
		return true
	})
	return r
}

// c02FirstCompositeFields: "key=value" of the first keyed composite literal in fn (whatever its type)
func c02FirstCompositeFields(f *ast.File, fn string) []string {
	fd := funcDecl(f, fn)
	if fd == nil {
		return []string{"MISSING:" + fn}
	}
	var res []string
	found := false
	ast.Inspect(fd, func(n ast.Node) bool {
		cl, ok := n.(*ast.CompositeLit)
		if !ok || found {
			return !found
		}
		found = true
		for _, e := range cl.Elts {
			if kv, ok := e.(*ast.KeyValueExpr); ok {
				res = append(res, exprString(kv.Key)+"="+exprFull(kv.Value))
			} else {
				res = append(res, "?="+exprFull(e))
			}
		}
		return false
	})
	if !found {
		return []string{"MISSING:literal"}
	}
	return res
}

func c02DpopFacts(l *lean, consts c02Consts, ttlOf func(*ast.File, string) ast.Expr) {
	_, iamDpop := parseFile("auth/api/iam/dpop.go")
	_, libDpop := parseFile("crypto/dpop/dpop.go")
	_, s2s := parseFile("auth/api/iam/s2s_vptoken.go")
	_, o4vp := parseFile("auth/api/iam/openid4vp.go")

	cv := c02Conds(iamDpop, "ValidateDPoPProof")
	l.def("condsValidateDPoP", "List String", leanStrList(cv), cv)
	l.chain("chainValidateDPoP", iamDpop, "ValidateDPoPProof")
	cm := c02Conds(libDpop, "Match")
	l.def("condsDpopMatch", "List String", leanStrList(cm), cm)
	l.chain("chainDpopMatch", libDpop, "Match")
	as := c02Assigns(libDpop, "strip")
	l.def("assignsDpopStrip", "List String", leanStrList(as), as)
	// the key under which a proof is remembered, and its lifetime
	k1 := c02StoreKeyArgs(iamDpop, "ValidateDPoPProof", ".PutIfAbsent", ".Put", ".Get", ".Exists")
	l.def("dpopStoreKeys", "List String", leanStrList(k1), k1)
	l.durMs("nonceOnceTtlMs", consts, ttlOf(iamDpop, "useNonceOnceStore"))
	// the keys of the other once-only stores of the token endpoint
	k2 := c02StoreKeyArgs(s2s, "validateS2SPresentationNonce", ".PutIfAbsent", ".Put", ".Get", ".Exists")
	l.def("s2sNonceStoreKeys", "List String", leanStrList(k2), k2)
	k3 := c02StoreKeyArgs(o4vp, "handleAccessTokenRequest", ".GetAndDelete", ".Get", ".Put", ".Delete")
	l.def("codeStoreKeys", "List String", leanStrList(k3), k3)
	// the stores a request obtains through GetStore share the DATABASE's one mutex (PutIfAbsent / GetAndDelete are Get + Put / Delete
	// under that mutex; every request calls GetStore anew)
	_, inmem := parseFile("storage/session_inmemory.go")
	_, rds := parseFile("storage/session_redis.go")
	g1 := c02FirstCompositeFields(inmem, "GetStore")
	l.def("getStoreInitInMemory", "List String", leanStrList(g1), g1)
	g2 := c02FirstCompositeFields(rds, "GetStore")
	l.def("getStoreInitRedis", "List String", leanStrList(g2), g2)
}
