package main

import (
	"bytes"
	"go/ast"
	"go/printer"
	"go/token"
	"strconv"
	"strings"
)

// c16ExprSrc prints an expression as source text (one line)
func c16ExprSrc(e ast.Node) string {
	var b bytes.Buffer
	_ = printer.Fprint(&b, token.NewFileSet(), e)
	return strings.Join(strings.Fields(b.String()), " ")
}

func c16Src(fd *ast.FuncDecl) string { return c16ExprSrc(fd) }

func c16Exprs(es []ast.Expr) string {
	var l []string
	for _, e := range es {
		l = append(l, c16ExprSrc(e))
	}
	return strings.Join(l, ", ")
}

func init() { extractors["C16"] = extractC16 }

// names of the identifiers / calls that mark a check in verifyRegistration & friends
var c16Marks = map[string]string{
	"errUnsupportedPresentationFormat":           "format",
	"errPresentationWithoutID":                   "no-id",
	"validateAudience":                           "aud",
	"errPresentationWithoutExpiration":           "no-exp",
	"time.Until":                                 "too-long",
	"credential.PresentationSigner":              "signer",
	"ErrDIDMethodsNotSupported":                  "did-method",
	"retractionPresentationType":                 "branch:retraction",
	"VerifyVP":                                   "verify",
	"errRetractionContainsCredentials":           "retract-creds",
	"errInvalidRetractionJTIClaim":               "retract-jti",
	"errRetractionReferencesUnknownPresentation": "retract-unknown",
	"errCredentialWithoutID":                     "cred-no-id",
	"errPresentationValidityExceedsCredentials":  "cred-exp",
	"Match":                                      "pex-nomatch",
	"errPresentationDoesNotFulfillDefinition":    "pex-partial",
}

// c16Checks lists, in source order, the marks met in fn (each once, at first occurrence); identifiers that look
// like an error value (err[A-Z]…/Err[A-Z]…) but are not known are listed as "?name" so that the Lean fact fails.
func c16Checks(fd *ast.FuncDecl) []string {
	var out []string
	seen := map[string]bool{}
	add := func(s string) {
		if !seen[s] {
			seen[s] = true
			out = append(out, s)
		}
	}
	if fd == nil {
		return []string{"?missing"}
	}
	ast.Inspect(fd.Body, func(n ast.Node) bool {
		switch x := n.(type) {
		case *ast.CallExpr:
			s := exprString(x.Fun)
			if m, ok := c16Marks[s]; ok {
				add(m)
			} else if sel, ok := x.Fun.(*ast.SelectorExpr); ok {
				if m, ok := c16Marks[sel.Sel.Name]; ok {
					add(m)
				}
			}
		case *ast.Ident:
			if m, ok := c16Marks[x.Name]; ok {
				add(m)
			} else if len(x.Name) > 3 && (strings.HasPrefix(x.Name, "err") || strings.HasPrefix(x.Name, "Err")) &&
				x.Name[3] >= 'A' && x.Name[3] <= 'Z' && x.Name != "ErrInvalidPresentation" {
				add("?" + x.Name)
			}
		}
		return true
	})
	return out
}

// c16Strings returns all string literals in fn in source order
func c16Strings(fd *ast.FuncDecl) []string {
	var out []string
	if fd == nil {
		return out
	}
	ast.Inspect(fd.Body, func(n ast.Node) bool {
		if b, ok := n.(*ast.BasicLit); ok && b.Kind == token.STRING {
			if s, err := strconv.Unquote(b.Value); err == nil {
				out = append(out, s)
			}
		}
		return true
	})
	return out
}

// position (source offset) of the first call whose printed form contains all of `parts`; -1 if none
func c16CallPos(fd *ast.FuncDecl, parts ...string) int {
	pos := -1
	if fd == nil {
		return pos
	}
	ast.Inspect(fd.Body, func(n ast.Node) bool {
		if c, ok := n.(*ast.CallExpr); ok && pos < 0 {
			s := exprString(c.Fun)
			for _, a := range c.Args {
				s += " " + exprString(a)
			}
			all := true
			for _, p := range parts {
				if !strings.Contains(s, p) {
					all = false
				}
			}
			if all {
				pos = int(c.Pos())
			}
		}
		return true
	})
	return pos
}

func c16Bool(b bool) string {
	if b {
		return "true"
	}
	return "false"
}

func extractC16() *lean {
	l := newLean("C16")
	_, module := parseFile("discovery/module.go")
	_, store := parseFile("discovery/store.go")
	_, client := parseFile("discovery/client.go")

	for _, nf := range [][2]string{{"verifyChecks", "verifyRegistration"}, {"retractionChecks", "validateRetraction"}, {"registrationChecks", "validateRegistration"}} {
		c := c16Checks(funcDecl(module, nf[1]))
		l.def(nf[0], "List String", leanStrList(c), c)
	}

	// Register: verifyRegistration, then exists, then add, then updateValidated
	reg := funcDecl(module, "Register")
	regOrder := []string{}
	type pc struct {
		name string
		pos  int
	}
	var calls []pc
	for _, c := range []string{"verifyRegistration", "store.exists", "store.add", "store.updateValidated"} {
		if p := c16CallPos(reg, c); p >= 0 {
			calls = append(calls, pc{c, p})
		}
	}
	for i := 0; i < len(calls); i++ {
		for j := i + 1; j < len(calls); j++ {
			if calls[j].pos < calls[i].pos {
				calls[i], calls[j] = calls[j], calls[i]
			}
		}
	}
	for _, c := range calls {
		regOrder = append(regOrder, c.name)
	}
	l.def("registerCalls", "List String", leanStrList(regOrder), regOrder)

	// sqlStore.get: which Find comes first
	get := funcDecl(store, "get")
	ps, pr := c16CallPos(get, "Find", "&service"), c16CallPos(get, "Find", "&rows")
	l.def("getServiceFirst", "Bool", c16Bool(ps >= 0 && pr >= 0 && ps < pr), ps >= 0 && pr >= 0 && ps < pr)
	l.def("getReadsBoth", "Bool", c16Bool(ps >= 0 && pr >= 0), ps >= 0 && pr >= 0)
	var getConds []string
	for _, s := range c16Strings(get) {
		if strings.Contains(s, "lamport_timestamp") {
			getConds = append(getConds, s)
		}
	}
	l.def("getRowConditions", "List String", leanStrList(getConds), getConds)

	// sqlStore.add: prune, then (in the transaction) timestamp, delete previous of the subject, storePresentation
	add := funcDecl(store, "add")
	var addCalls []pc
	for _, c := range [][]string{{"s.prune"}, {"incrementTimestamp"}, {"setTimestamp"}, {"tx.Delete", "credential_subject_id = ?"}, {"storePresentation"}} {
		if p := c16CallPos(add, c...); p >= 0 {
			addCalls = append(addCalls, pc{c[0], p})
		}
	}
	for i := 0; i < len(addCalls); i++ {
		for j := i + 1; j < len(addCalls); j++ {
			if addCalls[j].pos < addCalls[i].pos {
				addCalls[i], addCalls[j] = addCalls[j], addCalls[i]
			}
		}
	}
	var addOrder []string
	for _, c := range addCalls {
		addOrder = append(addOrder, c.name)
	}
	l.def("addCalls", "List String", leanStrList(addOrder), addOrder)
	// storePresentation: what guards the call of the credential store (which dereferences credential.ID)
	guards := []string{}
	if sp := funcDecl(store, "storePresentation"); sp != nil {
		ast.Inspect(sp.Body, func(n ast.Node) bool {
			if r, ok := n.(*ast.RangeStmt); ok {
				for _, st := range r.Body.List {
					if i, ok := st.(*ast.IfStmt); ok {
						guards = append(guards, "if "+c16ExprSrc(i.Cond))
					}
					if a, ok := st.(*ast.AssignStmt); ok && len(a.Rhs) == 1 {
						if c, ok := a.Rhs[0].(*ast.CallExpr); ok && strings.HasSuffix(exprString(c.Fun), "credentialStore.Store") {
							guards = append(guards, "credentialStore.Store")
						}
					}
				}
				return false
			}
			return true
		})
	}
	l.def("storeCredentialGuards", "List String", leanStrList(guards), guards)
	var delConds []string
	for _, s := range c16Strings(add) {
		if strings.Contains(s, "credential_subject_id") {
			delConds = append(delConds, s)
		}
	}
	l.def("addDeleteConditions", "List String", leanStrList(delConds), delConds)

	// incrementTimestamp: the increment expression
	inc := funcDecl(store, "incrementTimestamp")
	incExpr := []string{}
	if inc != nil {
		ast.Inspect(inc.Body, func(n ast.Node) bool {
			if as, ok := n.(*ast.AssignStmt); ok && len(as.Lhs) == 1 && exprString(as.Lhs[0]) == "service.LastLamportTimestamp" {
				incExpr = append(incExpr, exprString(as.Rhs[0]))
			}
			return true
		})
	}
	l.def("incrementExpr", "List String", leanStrList(incExpr), incExpr)
	// setTimestamp: the statements of the function body in order (the timestamp of the response is stored unconditionally:
	// a late, older response must roll the timestamp back together with the entries it re-installs)
	setStmts := []string{}
	if sd := funcDecl(store, "setTimestamp"); sd != nil {
		for _, st := range sd.Body.List {
			switch x := st.(type) {
			case *ast.AssignStmt:
				if len(x.Lhs) == 1 && strings.HasPrefix(exprString(x.Lhs[0]), "service.") {
					setStmts = append(setStmts, c16ExprSrc(x))
				}
			case *ast.IfStmt:
				if !strings.Contains(c16ExprSrc(x.Cond), "err != nil") {
					setStmts = append(setStmts, "if "+c16ExprSrc(x.Cond))
				}
			}
		}
	}
	l.def("setTimestampStmts", "List String", leanStrList(setStmts), setStmts)
	// newSQLStore (every Module.Start): how the service records are made sure of — only MISSING ones may be created,
	// an existing record (seed, timestamp) must survive a restart
	startCalls := []string{}
	if nd := funcDecl(store, "newSQLStore"); nd != nil {
		ast.Inspect(nd.Body, func(n ast.Node) bool {
			if c, ok := n.(*ast.CallExpr); ok {
				if sel, ok := c.Fun.(*ast.SelectorExpr); ok && exprString(sel.X) == "db" {
					startCalls = append(startCalls, "db."+sel.Sel.Name+"("+c16Exprs(c.Args)+")")
				}
			}
			return true
		})
	}
	l.def("newStoreDBCalls", "List String", leanStrList(startCalls), startCalls)

	// removeExpired / search: the expiry comparisons
	var pruneConds []string
	for _, s := range c16Strings(funcDecl(store, "removeExpired")) {
		if strings.Contains(s, "presentation_expiration") {
			pruneConds = append(pruneConds, s)
		}
	}
	l.def("pruneConditions", "List String", leanStrList(pruneConds), pruneConds)
	var searchSkip []string
	var searchWhere []string
	if sd := funcDecl(store, "search"); sd != nil {
		ast.Inspect(sd.Body, func(n ast.Node) bool {
			if b, ok := n.(*ast.BinaryExpr); ok && strings.Contains(exprString(b.X), "PresentationExpiration") {
				searchSkip = append(searchSkip, exprString(b.X)+" "+b.Op.String()+" "+exprString(b.Y))
			}
			return true
		})
		for _, s := range c16Strings(sd) {
			if strings.Contains(s, "validated") {
				searchWhere = append(searchWhere, s)
			}
		}
	}
	l.def("searchSkipConditions", "List String", leanStrList(searchSkip), searchSkip)
	l.def("searchValidatedConditions", "List String", leanStrList(searchWhere), searchWhere)

	// verifyRegistration: the max-validity comparison
	var tooLong []string
	if vd := funcDecl(module, "verifyRegistration"); vd != nil {
		ast.Inspect(vd.Body, func(n ast.Node) bool {
			if b, ok := n.(*ast.BinaryExpr); ok && strings.HasPrefix(exprString(b.X), "time.Until") {
				tooLong = append(tooLong, exprString(b.X)+" "+b.Op.String())
			}
			return true
		})
	}
	l.def("maxValidityComparison", "List String", leanStrList(tooLong), tooLong)

	// wipeOnSeedChange condition, and whether updateService returns when the wipe happened
	var wipeCond []string
	wipeFn := "wipeIfSeedChanged" // the function that holds the wipe condition (wipeOnSeedChange wraps it since 7847ccc)
	if funcDecl(store, wipeFn) == nil {
		wipeFn = "wipeOnSeedChange"
	}
	if wd := funcDecl(store, wipeFn); wd != nil {
		ast.Inspect(wd.Body, func(n ast.Node) bool {
			if i, ok := n.(*ast.IfStmt); ok && strings.Contains(exprString(i.Cond), "Seed") {
				wipeCond = append(wipeCond, exprString(i.Cond))
			}
			return true
		})
	}
	l.def("wipeConditions", "List String", leanStrList(wipeCond), wipeCond)

	upd := funcDecl(client, "updateService")
	restart := false
	var updCalls []string
	skipExisting := false
	if upd != nil {
		wipedVar := ""
		for _, st := range upd.Body.List {
			switch x := st.(type) {
			case *ast.AssignStmt:
				if len(x.Rhs) == 1 {
					if c, ok := x.Rhs[0].(*ast.CallExpr); ok && strings.Contains(exprString(c.Fun), "store.wipe") && len(x.Lhs) == 2 {
						wipedVar = exprString(x.Lhs[0])
					}
				}
			case *ast.IfStmt:
				// `if wiped { … return … }` directly in the function body, before the loop over the response
				if wipedVar != "" && exprString(x.Cond) == wipedVar && len(x.Body.List) > 0 {
					if _, ok := x.Body.List[len(x.Body.List)-1].(*ast.ReturnStmt); ok {
						restart = true
					}
				}
			case *ast.RangeStmt:
				wipedVar = "" // an `if wiped` after the loop does not count
			}
		}
		var pcs []pc
		for _, c := range []string{"store.getTimestamp", "client.Get", "store.wipeOnSeedChange", "store.wipeIfSeedChanged", "store.exists", "store.add", "u.verifier", "store.updateValidated"} {
			if p := c16CallPos(upd, c); p >= 0 {
				pcs = append(pcs, pc{c, p})
			}
		}
		for i := 0; i < len(pcs); i++ {
			for j := i + 1; j < len(pcs); j++ {
				if pcs[j].pos < pcs[i].pos {
					pcs[i], pcs[j] = pcs[j], pcs[i]
				}
			}
		}
		for _, c := range pcs {
			updCalls = append(updCalls, c.name)
		}
		ast.Inspect(upd.Body, func(n ast.Node) bool {
			if i, ok := n.(*ast.IfStmt); ok && exprString(i.Cond) == "exists" && len(i.Body.List) == 1 {
				if b, ok := i.Body.List[0].(*ast.BranchStmt); ok && b.Tok == token.CONTINUE {
					skipExisting = true
				}
			}
			return true
		})
	}
	// ---- edges of the mechanism (coverage audit): sibling functions, wiring, comparison helpers, loop shapes
	// every writer of the service record reads it under the row lock
	lockFn := funcDecl(store, "findAndLockService")
	locked := []string{}
	if lockFn != nil {
		src := c16Src(lockFn)
		if strings.Contains(src, "clause.Locking") {
			locked = append(locked, "clause.Locking")
		}
		for _, lit := range c16Strings(lockFn) {
			if strings.Contains(lit, "UPDLOCK") {
				locked = append(locked, "UPDLOCK")
			}
		}
	}
	for _, fn := range []string{"incrementTimestamp", "setTimestamp", wipeFn} {
		if c16CallPos(funcDecl(store, fn), "findAndLockService") >= 0 {
			locked = append(locked, fn)
		}
	}
	l.def("lockedServiceWriters", "List String", leanStrList(locked), locked)
	// loops that must visit every element: jump statements inside them
	jumps := []string{}
	for _, fj := range []struct {
		file *ast.File
		fn   string
	}{{module, "validateRegistration"}, {module, "validateAudience"}, {client, "update"}, {client, "validate"}, {client, "removeRevoked"}} {
		fd := funcDecl(fj.file, fj.fn)
		if fd == nil {
			jumps = append(jumps, fj.fn+":MISSING")
			continue
		}
		ast.Inspect(fd.Body, func(n ast.Node) bool {
			if r, ok := n.(*ast.RangeStmt); ok {
				ast.Inspect(r.Body, func(m ast.Node) bool {
					switch x := m.(type) {
					case *ast.BranchStmt:
						jumps = append(jumps, fj.fn+":"+x.Tok.String())
					case *ast.ReturnStmt:
						jumps = append(jumps, fj.fn+":return "+c16Exprs(x.Results))
					}
					return true
				})
				return false
			}
			return true
		})
	}
	l.def("loopJumps", "List String", leanStrList(jumps), jumps)
	// comparisons
	cmps := []string{}
	if fd := funcDecl(module, "validateAudience"); fd != nil {
		ast.Inspect(fd.Body, func(n ast.Node) bool {
			if i, ok := n.(*ast.IfStmt); ok {
				cmps = append(cmps, "aud: "+exprString(i.Cond))
			}
			return true
		})
	}
	if fd := funcDecl(module, "verifyRegistration"); fd != nil {
		ast.Inspect(fd.Body, func(n ast.Node) bool {
			if i, ok := n.(*ast.IfStmt); ok && strings.Contains(c16ExprSrc(i.Cond), "DIDMethods") {
				cmps = append(cmps, "method: "+c16ExprSrc(i.Cond))
			}
			return true
		})
	}
	if fd := funcDecl(module, "validateRegistration"); fd != nil {
		ast.Inspect(fd.Body, func(n ast.Node) bool {
			if i, ok := n.(*ast.IfStmt); ok {
				cmps = append(cmps, "registration: "+c16ExprSrc(i.Cond))
			}
			return true
		})
	}
	l.def("comparisons", "List String", leanStrList(cmps), cmps)
	// the key of sqlStore.exists
	keyFields := []string{}
	if fd := funcDecl(store, "exists"); fd != nil {
		ast.Inspect(fd.Body, func(n ast.Node) bool {
			if c, ok := n.(*ast.CompositeLit); ok && exprString(c.Type) == "presentationRecord" && len(c.Elts) > 0 {
				for _, e := range c.Elts {
					if kv, ok := e.(*ast.KeyValueExpr); ok {
						keyFields = append(keyFields, exprString(kv.Key)+"="+c16ExprSrc(kv.Value))
					}
				}
			}
			return true
		})
	}
	l.def("existsKey", "List String", leanStrList(keyFields), keyFields)
	existsCalls := []string{}
	for _, fj := range []struct {
		file *ast.File
		fn   string
	}{{module, "Register"}, {module, "validateRetraction"}, {client, "updateService"}} {
		if fd := funcDecl(fj.file, fj.fn); fd != nil {
			ast.Inspect(fd.Body, func(n ast.Node) bool {
				if c, ok := n.(*ast.CallExpr); ok && strings.HasSuffix(exprString(c.Fun), "store.exists") {
					existsCalls = append(existsCalls, fj.fn+"("+c16Exprs(c.Args)+")")
				}
				return true
			})
		}
	}
	l.def("existsCalls", "List String", leanStrList(existsCalls), existsCalls)
	// background validation keeps exactly the records that verified; removeRevoked deletes only on ErrRevoked
	bg := []string{}
	if fd := funcDecl(client, "validate"); fd != nil {
		ast.Inspect(fd.Body, func(n ast.Node) bool {
			switch x := n.(type) {
			case *ast.AssignStmt:
				if len(x.Lhs) == 1 && strings.HasPrefix(c16ExprSrc(x.Lhs[0]), "presentations[") {
					bg = append(bg, c16ExprSrc(x.Lhs[0])+" = "+c16ExprSrc(x.Rhs[0]))
				}
			case *ast.CallExpr:
				if strings.HasSuffix(exprString(x.Fun), "updateValidated") {
					bg = append(bg, "updateValidated("+c16Exprs(x.Args)+")")
				}
			}
			return true
		})
	}
	if fd := funcDecl(client, "removeRevoked"); fd != nil {
		var walk func(n ast.Node, guard string)
		walk = func(n ast.Node, guard string) {
			ast.Inspect(n, func(m ast.Node) bool {
				if m == n {
					return true
				}
				switch x := m.(type) {
				case *ast.IfStmt:
					if x.Init != nil {
						walk(&ast.BlockStmt{List: []ast.Stmt{x.Init}}, guard)
					}
					walk(x.Body, c16ExprSrc(x.Cond))
					if x.Else != nil {
						walk(x.Else, "else of "+c16ExprSrc(x.Cond))
					}
					return false
				case *ast.CallExpr:
					if strings.HasSuffix(exprString(x.Fun), "deletePresentationRecord") {
						bg = append(bg, "delete if "+guard)
					}
				}
				return true
			})
		}
		walk(fd.Body, "always")
	}
	l.def("backgroundJobs", "List String", leanStrList(bg), bg)
	// wiring in Module.Start / Search and the transport
	wiring := []string{}
	if fd := funcDecl(module, "Start"); fd != nil {
		ast.Inspect(fd.Body, func(n ast.Node) bool {
			if c, ok := n.(*ast.CallExpr); ok {
				switch exprString(c.Fun) {
				case "newSQLStore", "newClientUpdater", "newRegistrationManager":
					wiring = append(wiring, exprString(c.Fun)+"("+c16Exprs(c.Args)+")")
				}
			}
			return true
		})
	}
	if fd := funcDecl(module, "Search"); fd != nil {
		ast.Inspect(fd.Body, func(n ast.Node) bool {
			if c, ok := n.(*ast.CallExpr); ok && strings.HasSuffix(exprString(c.Fun), "store.search") {
				wiring = append(wiring, "Search: store.search("+c16Exprs(c.Args)+")")
			}
			return true
		})
	}
	if fd := funcDecl(module, "Get"); fd != nil {
		ast.Inspect(fd.Body, func(n ast.Node) bool {
			if c, ok := n.(*ast.CallExpr); ok && strings.HasSuffix(exprString(c.Fun), "store.get") {
				wiring = append(wiring, "Get: store.get("+c16Exprs(c.Args)+")")
			}
			return true
		})
	}
	_, api := parseFile("discovery/api/server/api.go")
	if fd := funcDecl(api, "GetPresentations"); fd != nil {
		ast.Inspect(fd.Body, func(n ast.Node) bool {
			switch x := n.(type) {
			case *ast.CallExpr:
				if strings.HasSuffix(exprString(x.Fun), "Server.Get") {
					wiring = append(wiring, "api: Server.Get("+c16Exprs(x.Args)+")")
				}
			case *ast.CompositeLit:
				if exprString(x.Type) == "GetPresentations200JSONResponse" {
					wiring = append(wiring, "api: response{"+c16Exprs(x.Elts)+"}")
				}
			}
			return true
		})
	}
	if fd := funcDecl(api, "RegisterPresentation"); fd != nil {
		ast.Inspect(fd.Body, func(n ast.Node) bool {
			if c, ok := n.(*ast.CallExpr); ok && strings.HasSuffix(exprString(c.Fun), "Server.Register") {
				wiring = append(wiring, "api: Server.Register("+c16Exprs(c.Args)+")")
			}
			return true
		})
	}
	_, httpc := parseFile("discovery/api/server/client/http.go")
	if fd := funcDecl(httpc, "Get"); fd != nil {
		for _, lit := range c16Strings(fd) {
			if lit == "timestamp" {
				wiring = append(wiring, "http: query timestamp")
			}
		}
		if n := len(fd.Body.List); n > 0 {
			if r, ok := fd.Body.List[n-1].(*ast.ReturnStmt); ok {
				wiring = append(wiring, "http: return "+c16Exprs(r.Results))
			}
		}
	}
	l.def("wiring", "List String", leanStrList(wiring), wiring)

	l.def("restartAfterWipe", "Bool", c16Bool(restart), restart)
	l.def("updateServiceCalls", "List String", leanStrList(updCalls), updCalls)
	l.def("updateSkipsExisting", "Bool", c16Bool(skipExisting), skipExisting)
	c16NodeFacts(l) // deepening round: node layer (c16node.go)
	c16Round3Facts(l) // round 3: client loop guards, add arguments, seed draw (c16r3.go)
	return l
}
