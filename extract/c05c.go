package main

// C05, OpenID4VCI request level (deepening round 2, 2026-09-28): what NutsModel/C05/Vci.lean mirrors of
// vcr/issuer/openid.go HandleAccessTokenRequest and vcr/issuer/openid_store.go (FindAndDeleteReference, StoreReference,
// Store, FindByReference, DeleteReference):
//   * src_vci_<fn>: normalised statements of every function (pinned by rfl: an edit breaks the build),
//   * errs_vciHandleAccessTokenRequest: the openid4vci.Error literals of the handler in source order (code constant, message),
//   * vciErrorCodes: openid4vci error-code constants resolved to their values,
//   * vciStoreErrs_<fn>: the errors.New messages of the store functions in source order,
//   * vciGetStoreArgs: (function, ttl expression, prefix, store name expression) of every GetStore call of openid_store.go,
//   * vciRefTypeConsts: the reference-type constants with their values.

import (
	"go/ast"
	"go/token"
	"sort"
	"strconv"
	"strings"
)

func extractC05Vci(l *lean) {
	fsetH, fH := parseFile("vcr/issuer/openid.go")
	fsetS, fS := parseFile("vcr/issuer/openid_store.go")
	// ---- source pins
	l.def("src_vci_HandleAccessTokenRequest", "List String", leanStrList(c05SrcLines(fsetH, funcDecl(fH, "HandleAccessTokenRequest"))), nil)
	storeFns := []string{"Store", "StoreReference", "FindByReference", "FindAndDeleteReference", "DeleteReference"}
	for _, fn := range storeFns {
		l.def("src_vci_"+fn, "List String", leanStrList(c05SrcLines(fsetS, funcDecl(fS, fn))), nil)
	}
	// ---- the handler's own errors: openid4vci.Error{Err: errors.New("…"), Code: openid4vci.X}
	var pairs [][2]string
	if fd := funcDecl(fH, "HandleAccessTokenRequest"); fd != nil && fd.Body != nil {
		ast.Inspect(fd.Body, func(n ast.Node) bool {
			if x, ok := n.(*ast.CompositeLit); ok && exprString(x.Type) == "openid4vci.Error" {
				code, msg := "?", ""
				for _, el := range x.Elts {
					if kv, ok := el.(*ast.KeyValueExpr); ok {
						switch exprString(kv.Key) {
						case "Code":
							code = strings.TrimPrefix(exprString(kv.Value), "openid4vci.")
						case "Err":
							msg = c05FirstLit(kv.Value)
						}
					}
				}
				pairs = append(pairs, [2]string{code, msg})
				return false
			}
			return true
		})
	}
	l.def("errs_vciHandleAccessTokenRequest", "List (String × String)", leanPairList(pairs), pairs)
	// ---- error-code constants of vcr/openid4vci/error.go
	_, fE := parseFile("vcr/openid4vci/error.go")
	var codes [][2]string
	for _, d := range fE.Decls {
		gd, ok := d.(*ast.GenDecl)
		if !ok || gd.Tok != token.CONST {
			continue
		}
		for _, s := range gd.Specs {
			vs := s.(*ast.ValueSpec)
			if vs.Type == nil || exprString(vs.Type) != "ErrorCode" {
				continue
			}
			for i, nm := range vs.Names {
				if i < len(vs.Values) {
					if b, ok := vs.Values[i].(*ast.BasicLit); ok && b.Kind == token.STRING {
						v, _ := strconv.Unquote(b.Value)
						codes = append(codes, [2]string{nm.Name, v})
					}
				}
			}
		}
	}
	sort.Slice(codes, func(i, j int) bool { return codes[i][0] < codes[j][0] })
	l.def("vciErrorCodes", "List (String × String)", leanPairList(codes), codes)
	// ---- errors.New messages of the store functions, in source order
	for _, fn := range storeFns {
		var msgs []string
		if fd := funcDecl(fS, fn); fd != nil && fd.Body != nil {
			ast.Inspect(fd.Body, func(n ast.Node) bool {
				if c, ok := n.(*ast.CallExpr); ok && exprString(c.Fun) == "errors.New" && len(c.Args) == 1 {
					msgs = append(msgs, c05FirstLit(c.Args[0]))
					return false
				}
				return true
			})
		}
		l.def("vciStoreErrs_"+fn, "List String", leanStrList(msgs), msgs)
	}
	// ---- every GetStore call of the store file: which ttl, which prefix, which store
	var gs []string
	for _, fn := range storeFns {
		if fd := funcDecl(fS, fn); fd != nil && fd.Body != nil {
			ast.Inspect(fd.Body, func(n ast.Node) bool {
				if c, ok := n.(*ast.CallExpr); ok {
					if sel, ok := c.Fun.(*ast.SelectorExpr); ok && sel.Sel.Name == "GetStore" {
						var a []string
						for _, x := range c.Args {
							a = append(a, exprString(x))
						}
						gs = append(gs, fn+":"+strings.Join(a, ","))
					}
				}
				return true
			})
		}
	}
	l.def("vciGetStoreArgs", "List String", leanStrList(gs), gs)
	// ---- reference-type constants
	var rts [][2]string
	for _, d := range fH.Decls {
		gd, ok := d.(*ast.GenDecl)
		if !ok || gd.Tok != token.CONST {
			continue
		}
		for _, s := range gd.Specs {
			vs := s.(*ast.ValueSpec)
			for i, nm := range vs.Names {
				if strings.HasSuffix(nm.Name, "RefType") && i < len(vs.Values) {
					if b, ok := vs.Values[i].(*ast.BasicLit); ok && b.Kind == token.STRING {
						v, _ := strconv.Unquote(b.Value)
						rts = append(rts, [2]string{nm.Name, v})
					}
				}
			}
		}
	}
	sort.Slice(rts, func(i, j int) bool { return rts[i][0] < rts[j][0] })
	l.def("vciRefTypeConsts", "List (String × String)", leanPairList(rts), rts)
}
