package main

// C08 deepening round 3: the two store transactions of state.Add (read function, write function head, txAdded, the
// AfterCommit hooks) as source text, for NutsModel/C08/Phases.lean.

import (
	"go/ast"
	"go/token"
)

// the function literal passed as 2nd argument of the first call `callee(...)` found in n
func c08FuncArg(n ast.Node, callee string) *ast.FuncLit {
	var r *ast.FuncLit
	ast.Inspect(n, func(m ast.Node) bool {
		if r != nil {
			return false
		}
		if c, ok := m.(*ast.CallExpr); ok && exprString(c.Fun) == callee && len(c.Args) >= 2 {
			if fl, ok := c.Args[1].(*ast.FuncLit); ok {
				r = fl
			}
		}
		return true
	})
	return r
}

func c08StmtsSrc(fset *token.FileSet, l []ast.Stmt, max int) []string {
	r := []string{}
	for i, s := range l {
		if max > 0 && i >= max {
			break
		}
		r = append(r, c08Src(fset, s))
	}
	return r
}

func c08PhaseFacts(l *lean) {
	fset, st := parseFile("network/dag/state.go")
	add := funcDecl(st, "Add")
	readFn, afterRead, writeHead, assigns, hooks := []string{"MISSING"}, []string{"MISSING"}, []string{"MISSING"}, []string{}, []string{}
	if add != nil && add.Body != nil {
		for i, s := range add.Body.List {
			// `if err := s.db.Read(ctx, func(tx) error {...}); err != nil { return err }` and the statement after it
			if is, ok := s.(*ast.IfStmt); ok && is.Init != nil {
				if fl := c08FuncArg(is.Init, "s.db.Read"); fl != nil {
					readFn = c08StmtsSrc(fset, fl.Body.List, 0)
					readFn = append(readFn, "then: if "+c08Src(fset, is.Cond)+" "+c08Src(fset, is.Body))
					afterRead = []string{}
					if i+1 < len(add.Body.List) {
						afterRead = append(afterRead, c08Src(fset, add.Body.List[i+1]))
					}
				}
			}
			// `return s.db.Write(ctx, func(tx) error {...}, options...)`
			if rs, ok := s.(*ast.ReturnStmt); ok {
				if fl := c08FuncArg(rs, "s.db.Write"); fl != nil {
					writeHead = c08StmtsSrc(fset, fl.Body.List, 2)
				}
			}
		}
		ast.Inspect(add, func(n ast.Node) bool {
			switch x := n.(type) {
			case *ast.AssignStmt:
				if len(x.Lhs) == 1 && exprString(x.Lhs[0]) == "txAdded" {
					assigns = append(assigns, c08Src(fset, x))
				}
			case *ast.CallExpr:
				if exprString(x.Fun) == "stoabs.AfterCommit" {
					for _, a := range x.Args {
						hooks = append(hooks, c08Src(fset, a))
					}
				}
			}
			return true
		})
	}
	l.def("addReadFn", "List String", leanStrList(readFn), readFn)
	l.def("addAfterRead", "List String", leanStrList(afterRead), afterRead)
	l.def("addWriteFnHead", "List String", leanStrList(writeHead), writeHead)
	l.def("addTxAddedAssigns", "List String", leanStrList(assigns), assigns)
	l.def("addAfterCommitHooks", "List String", leanStrList(hooks), hooks)
	// Start(): where the counter is initialised from
	start := c08Method(st, "state", "Start")
	sc := []string{}
	if start != nil {
		ast.Inspect(start, func(n ast.Node) bool {
			if c, ok := n.(*ast.CallExpr); ok && exprString(c.Fun) == "s.transactionCount.Add" {
				sc = append(sc, c08Src(fset, c))
			}
			return true
		})
	}
	l.def("startCounterInit", "List String", leanStrList(sc), sc)
	c08RepairFaultFacts(l)
}

// checkPage's write transaction: its options (no OnRollback), what happens after it returned; writeWithoutLock's head
func c08RepairFaultFacts(l *lean) {
	tfset, ts := parseFile("network/dag/treestore.go")
	head := []string{"MISSING"}
	if fn := c08Method(ts, "treeStore", "writeWithoutLock"); fn != nil && fn.Body != nil {
		head = c08StmtsSrc(tfset, fn.Body.List, 3)
	}
	l.def("writeWithoutLockHead", "List String", leanStrList(head), head)
	cfset, cs := parseFile("network/dag/consistency.go")
	opts, after := []string{"MISSING"}, []string{"MISSING"}
	if fn := c08Method(cs, "xorTreeRepair", "checkPage"); fn != nil && fn.Body != nil {
		for i, s := range fn.Body.List {
			as, ok := s.(*ast.AssignStmt)
			if !ok || len(as.Rhs) != 1 {
				continue
			}
			c, ok := as.Rhs[0].(*ast.CallExpr)
			if !ok || exprString(c.Fun) != "f.state.graph.db.Write" {
				continue
			}
			opts = []string{}
			for _, a := range c.Args[2:] {
				opts = append(opts, c08Src(cfset, a))
			}
			after = c08StmtsSrc(cfset, fn.Body.List[i+1:], 0)
		}
	}
	l.def("checkPageWriteOptions", "List String", leanStrList(opts), opts)
	l.def("checkPageAfterWrite", "List String", leanStrList(after), after)
}
