package main

// C13, deepening round 3: what the method managers' Commit do with the request context, where transactionHelper uses the
// context, and the comparison of the subject look-ups (did.go). Prints what the source says.

import (
	"go/ast"
	"go/token"
	"strconv"
	"strings"
)

// every string literal that is an argument of a gorm call inside fd, in source order
func c13QueryTexts(fd *ast.FuncDecl) []string {
	out := []string{}
	if fd == nil || fd.Body == nil {
		return out
	}
	ast.Inspect(fd.Body, func(n ast.Node) bool {
		c, ok := n.(*ast.CallExpr)
		if !ok {
			return true
		}
		for _, a := range c.Args {
			if lit, ok := a.(*ast.BasicLit); ok && lit.Kind == token.STRING {
				if s, err := strconv.Unquote(lit.Value); err == nil {
					out = append(out, s)
				}
			}
		}
		return true
	})
	return out
}

func extractC13c(l *lean) {
	// ---- did:web Commit: the parameter names (blank = the context and the change cannot be looked at)
	_, web := parseFile("vdr/didweb/manager.go")
	params := []string{}
	if fd := c13Method(web, "Manager", "Commit"); fd != nil && fd.Type.Params != nil {
		for _, f := range fd.Type.Params.List {
			if len(f.Names) == 0 {
				params = append(params, "_")
			}
			for _, n := range f.Names {
				params = append(params, n.Name)
			}
		}
	}
	l.def("webCommitParamNames", "List String", leanStrList(params), params)

	// ---- transactionHelper: every use of its `ctx` parameter, as the call it is an argument of
	fset, mgr := parseFile("vdr/didsubject/manager.go")
	uses := []string{}
	if fd := c13Method(mgr, "SqlManager", "transactionHelper"); fd != nil {
		var stack []ast.Node
		ast.Inspect(fd.Body, func(n ast.Node) bool {
			if n == nil {
				stack = stack[:len(stack)-1]
				return true
			}
			if id, ok := n.(*ast.Ident); ok && id.Name == "ctx" {
				use := "?"
				for i := len(stack) - 1; i >= 0; i-- {
					if c, ok := stack[i].(*ast.CallExpr); ok {
						use = c13Src(fset, c)
						break
					}
				}
				uses = append(uses, use)
			}
			stack = append(stack, n)
			return true
		})
	}
	l.def("transactionHelperContextUses", "List String", leanStrList(uses), uses)

	// ---- did.go: the query texts of the subject look-ups
	_, didf := parseFile("vdr/didsubject/did.go")
	fb := c13QueryTexts(c13Method(didf, "SqlDIDManager", "FindBySubject"))
	se := c13QueryTexts(c13Method(didf, "SqlDIDManager", "SubjectExists"))
	l.def("findBySubjectQueries", "List String", leanStrList(fb), fb)
	l.def("subjectExistsQueries", "List String", leanStrList(se), se)
	// the comparison operator of FindBySubject's only query ("subject <op> ?"); anything else does not elaborate
	op := ".unknown_subject_lookup"
	if len(fb) == 1 {
		if f := strings.Fields(fb[0]); len(f) == 3 && f[0] == "subject" && f[2] == "?" {
			op = strconv.Quote(f[1])
		}
	}
	l.def("findBySubjectOperator", "String", op, op)
}
