package main

// C17 deepening round 2: the private-key probe of dpop.jwkIsPrivateKey (sequence of `var x T` + `if err := jwk.Raw(&x); err == nil
// { return true }`, final return) as Lean data: the model's jwkIsPrivateKey runs on the regenerated sequence.

import (
	"go/ast"
)

func extractC17c(l *lean) {
	_, dpF := parseFile("crypto/dpop/dpop.go")
	var probes []string
	dflt := "unknown_default"
	fd := funcDecl(dpF, "jwkIsPrivateKey")
	if fd == nil || fd.Body == nil {
		probes = append(probes, "?missing")
	} else {
		vars := map[string]string{} // variable -> declared type
		for _, st := range fd.Body.List {
			switch s := st.(type) {
			case *ast.DeclStmt:
				gd, ok := s.Decl.(*ast.GenDecl)
				if !ok {
					probes = append(probes, "?"+c17Src(st))
					continue
				}
				for _, sp := range gd.Specs {
					vs, ok := sp.(*ast.ValueSpec)
					if !ok || vs.Type == nil || len(vs.Names) != 1 || len(vs.Values) != 0 {
						probes = append(probes, "?"+c17Src(st))
						continue
					}
					vars[vs.Names[0].Name] = exprString(vs.Type)
				}
			case *ast.IfStmt:
				// if err := <param>.Raw(&x); err == nil { return true }
				ok := s.Else == nil && s.Init != nil && c17Src(s.Cond) == "err == nil" && len(s.Body.List) == 1 && c17Src(s.Body.List[0]) == "return true"
				target := ""
				if as, isAs := s.Init.(*ast.AssignStmt); ok && isAs && len(as.Rhs) == 1 {
					if call, isCall := as.Rhs[0].(*ast.CallExpr); isCall && len(call.Args) == 1 {
						if sel, isSel := call.Fun.(*ast.SelectorExpr); isSel && sel.Sel.Name == "Raw" {
							if u, isU := call.Args[0].(*ast.UnaryExpr); isU {
								target = vars[exprString(u.X)]
							}
						}
					}
				}
				if !ok || target == "" {
					probes = append(probes, "?"+c17Src(st))
				} else {
					probes = append(probes, target)
				}
			case *ast.ReturnStmt:
				if len(s.Results) == 1 && (c17Src(s.Results[0]) == "false" || c17Src(s.Results[0]) == "true") {
					dflt = c17Src(s.Results[0])
				}
			default:
				probes = append(probes, "?"+c17Src(st))
			}
		}
	}
	l.def("dpopPrivateProbes", "List String", leanStrList(probes), probes)
	// an unmapped final statement gives `.unknown_default`, which does not elaborate
	if dflt == "unknown_default" {
		l.def("dpopPrivateProbeDefault", "Bool", ".unknown_default", dflt)
	} else {
		l.def("dpopPrivateProbeDefault", "Bool", dflt, dflt == "true")
	}
}
