package main

// C02 facts: durations (ms), session-store TTLs, the ordered call chains of the token handlers, the VerifyVP
// arguments, the AccessToken / introspection composite literals, the introspection response field names, the
// generated marshaller's assignment order and the reserved-claim list.

import (
	"fmt"
	"go/ast"
	"go/token"
	"reflect"
	"strconv"
	"strings"
)

func init() { extractors["C02"] = extractC02 }

// ---- constant durations -----------------------------------------------------------------------------------

type c02Consts map[string]ast.Expr

func c02CollectConsts(files ...*ast.File) c02Consts {
	res := c02Consts{}
	for _, f := range files {
		for _, d := range f.Decls {
			gd, ok := d.(*ast.GenDecl)
			if !ok || gd.Tok != token.CONST {
				continue
			}
			for _, s := range gd.Specs {
				vs := s.(*ast.ValueSpec)
				for i, n := range vs.Names {
					if i < len(vs.Values) {
						res[n.Name] = vs.Values[i]
					}
				}
			}
		}
	}
	return res
}

// evalMs evaluates a constant duration expression to milliseconds; ok=false if a construct is not understood.
func (c c02Consts) evalNs(e ast.Expr, depth int) (int64, bool) {
	if depth > 20 {
		return 0, false
	}
	switch x := e.(type) {
	case *ast.BasicLit:
		if x.Kind == token.INT {
			v, err := strconv.ParseInt(x.Value, 0, 64)
			return v, err == nil
		}
	case *ast.ParenExpr:
		return c.evalNs(x.X, depth+1)
	case *ast.SelectorExpr:
		if id, ok := x.X.(*ast.Ident); ok && id.Name == "time" {
			switch x.Sel.Name {
			case "Nanosecond":
				return 1, true
			case "Microsecond":
				return 1e3, true
			case "Millisecond":
				return 1e6, true
			case "Second":
				return 1e9, true
			case "Minute":
				return 60e9, true
			case "Hour":
				return 3600e9, true
			}
		}
	case *ast.Ident:
		if v, ok := c[x.Name]; ok {
			return c.evalNs(v, depth+1)
		}
	case *ast.BinaryExpr:
		a, ok1 := c.evalNs(x.X, depth+1)
		b, ok2 := c.evalNs(x.Y, depth+1)
		if !ok1 || !ok2 {
			return 0, false
		}
		switch x.Op {
		case token.ADD:
			return a + b, true
		case token.SUB:
			return a - b, true
		case token.MUL:
			return a * b, true
		}
	}
	return 0, false
}

func (l *lean) durMs(name string, c c02Consts, e ast.Expr) {
	if e == nil {
		l.def(name, "Nat", ".unknown_missing_"+name, "MISSING")
		return
	}
	ns, ok := c.evalNs(e, 0)
	if !ok || ns < 0 || ns%1e6 != 0 {
		l.def(name, "Nat", ".unknown_duration_"+name, exprString(e)) // does not elaborate
		return
	}
	l.def(name, "Nat", fmt.Sprint(ns/1e6), ns/1e6)
}

// ---- call chains ------------------------------------------------------------------------------------------

var c02IgnoreCalls = map[string]bool{
	"Error": true, "Sprintf": true, "Errorf": true, "oauthError": true, "String": true, "Is": true, "Join": true,
	"new": true, "Logger": true, "Debug": true, "Warn": true, "WithError": true, "len": true, "Now": true,
	"Empty": true, "Equals": true, "Value": true, "New": true, "make": true, "append": true, "Ptr": true, "Seconds": true, "int": true,
}

func callName(c *ast.CallExpr) string {
	switch f := c.Fun.(type) {
	case *ast.Ident:
		return f.Name
	case *ast.SelectorExpr:
		// keep the receiver for store calls: r.s2sNonceStore().Get -> s2sNonceStore.Get
		if inner, ok := f.X.(*ast.CallExpr); ok {
			return callName(inner) + "." + f.Sel.Name
		}
		return f.Sel.Name
	}
	return ""
}

// callChain lists, in source order, the calls made in n; loops are bracketed by "for{" "}", deferred code by "defer{" "}".
func callChain(n ast.Node) []string {
	var out []string
	ast.Inspect(n, func(m ast.Node) bool {
		switch x := m.(type) {
		case *ast.RangeStmt:
			out = append(out, callChain(x.X)...)
			out = append(out, "for{")
			out = append(out, callChain(x.Body)...)
			out = append(out, "}")
			return false
		case *ast.ForStmt:
			out = append(out, "for{")
			out = append(out, callChain(x.Body)...)
			out = append(out, "}")
			return false
		case *ast.DeferStmt:
			out = append(out, "defer{")
			out = append(out, callChain(x.Call)...)
			out = append(out, "}")
			return false
		case *ast.CallExpr:
			name := callName(x)
			last := name
			if i := strings.LastIndex(name, "."); i >= 0 {
				last = name[i+1:]
			}
			if name != "" && !c02IgnoreCalls[last] {
				out = append(out, name)
			}
			if inner, ok := x.Fun.(*ast.SelectorExpr); ok {
				if ic, ok := inner.X.(*ast.CallExpr); ok {
					// receiver call already folded into the name: only walk its arguments
					for _, a := range ic.Args {
						out = append(out, callChain(a)...)
					}
					for _, a := range x.Args {
						out = append(out, callChain(a)...)
					}
					return false
				}
			}
		}
		return true
	})
	return out
}

func (l *lean) chain(name string, f *ast.File, fn string) {
	fd := funcDecl(f, fn)
	if fd == nil {
		l.def(name, "List String", ".unknown_missing_"+fn, "MISSING")
		return
	}
	c := callChain(fd.Body)
	l.def(name, "List String", leanStrList(c), c)
}

// compositeFields returns ["Key=expr", ...] of the first composite literal of type `typ` in fn
func compositeFields(fd *ast.FuncDecl, typ string) []string {
	var res []string
	found := false
	ast.Inspect(fd, func(n ast.Node) bool {
		cl, ok := n.(*ast.CompositeLit)
		if !ok || found {
			return !found
		}
		if exprString(cl.Type) != typ {
			return true
		}
		found = true
		for _, e := range cl.Elts {
			if kv, ok := e.(*ast.KeyValueExpr); ok {
				res = append(res, exprString(kv.Key)+"="+exprFull(kv.Value))
			} else {
				res = append(res, "?="+exprString(e))
			}
		}
		return false
	})
	if !found {
		return []string{"MISSING:" + typ}
	}
	return res
}

// exprFull is exprString with call arguments kept
func exprFull(e ast.Expr) string {
	switch x := e.(type) {
	case *ast.CallExpr:
		var a []string
		for _, arg := range x.Args {
			a = append(a, exprFull(arg))
		}
		return exprFull(x.Fun) + "(" + strings.Join(a, ", ") + ")"
	case *ast.SelectorExpr:
		return exprFull(x.X) + "." + x.Sel.Name
	case *ast.StarExpr:
		return "*" + exprFull(x.X)
	case *ast.UnaryExpr:
		return x.Op.String() + exprFull(x.X)
	case *ast.BinaryExpr:
		return exprFull(x.X) + " " + x.Op.String() + " " + exprFull(x.Y)
	case *ast.ParenExpr:
		return "(" + exprFull(x.X) + ")"
	case *ast.CompositeLit:
		var a []string
		for _, el := range x.Elts {
			a = append(a, exprFull(el))
		}
		t := ""
		if x.Type != nil {
			t = exprFull(x.Type)
		}
		return t + "{" + strings.Join(a, ", ") + "}"
	case *ast.KeyValueExpr:
		return exprFull(x.Key) + ": " + exprFull(x.Value)
	case *ast.IndexExpr:
		return exprFull(x.X) + "[" + exprFull(x.Index) + "]"
	}
	return exprString(e)
}

func parseOnly(rel string) *ast.File {
	_, f := parseFile(rel)
	return f
}

func jsonTag(f *ast.Field) string {
	if f.Tag == nil {
		return ""
	}
	raw, _ := strconv.Unquote(f.Tag.Value)
	return reflect.StructTag(raw).Get("json")
}

func extractC02() *lean {
	l := newLean("C02")
	_, s2s := parseFile("auth/api/iam/s2s_vptoken.go")
	_, api := parseFile("auth/api/iam/api.go")
	_, user := parseFile("auth/api/iam/user.go")
	_, o4vp := parseFile("auth/api/iam/openid4vp.go")
	_, at := parseFile("auth/api/iam/access_token.go")
	_, val := parseFile("auth/api/iam/validation.go")
	_, sess := parseFile("auth/api/iam/session.go")
	_, pkce := parseFile("auth/api/iam/pkce_util.go")
	_, gen := parseFile("auth/api/iam/generated.go")
	_, silly := parseFile("auth/api/iam/codegen_sillyness.go")
	_, ver := parseFile("vcr/verifier/verifier.go")
	_, sigv := parseFile("vcr/verifier/signature_verifier.go")
	_, ldp := parseFile("vcr/signature/proof/jsonld.go")
	_, store := parseFile("storage/session.go")

	consts := c02CollectConsts(s2s, api, user, o4vp)
	l.durMs("s2sMaxValidityMs", consts, consts["s2sMaxPresentationValidity"])
	l.durMs("s2sMaxClockSkewMs", consts, consts["s2sMaxClockSkew"])
	l.durMs("accessTokenValidityMs", consts, consts["accessTokenValidity"])
	l.durMs("oauthFlowTimeoutMs", consts, consts["oAuthFlowTimeout"])
	vconsts := c02CollectConsts(ver)
	l.durMs("verifierMaxSkewMs", vconsts, vconsts["maxSkew"])

	// TTL argument of GetStore(...) in the store accessors
	ttlOf := func(f *ast.File, fn string) ast.Expr {
		fd := funcDecl(f, fn)
		if fd == nil {
			return nil
		}
		var e ast.Expr
		ast.Inspect(fd, func(n ast.Node) bool {
			if c, ok := n.(*ast.CallExpr); ok && callName(c) == "GetSessionDatabase.GetStore" && len(c.Args) > 0 && e == nil {
				e = c.Args[0]
			}
			return true
		})
		return e
	}
	l.durMs("s2sNonceTtlMs", consts, ttlOf(s2s, "s2sNonceStore"))
	l.durMs("accessTokenStoreTtlMs", consts, ttlOf(api, "accessTokenServerStore"))
	l.durMs("oauthCodeStoreTtlMs", consts, ttlOf(o4vp, "oauthCodeStore"))
	l.durMs("oauthNonceStoreTtlMs", consts, ttlOf(o4vp, "oauthNonceStore"))
	l.durMs("oauthClientStateStoreTtlMs", consts, ttlOf(user, "oauthClientStateStore"))

	// conditions of the s2s validity check and of ProofOptions.ValidAt, verbatim
	conds := func(f *ast.File, fn string) []string {
		fd := funcDecl(f, fn)
		if fd == nil {
			return []string{"MISSING:" + fn}
		}
		var r []string
		ast.Inspect(fd, func(n ast.Node) bool {
			if i, ok := n.(*ast.IfStmt); ok {
				r = append(r, exprFull(i.Cond))
			}
			return true
		})
		return r
	}
	c1 := conds(s2s, "validateS2SPresentationMaxValidity")
	l.def("s2sValidityConds", "List String", leanStrList(c1), c1)
	c2 := conds(ldp, "ValidAt")
	l.def("ldProofValidAtConds", "List String", leanStrList(c2), c2)
	// argument of ValidAt in the verifier's JSON-LD path
	var vaArgs []string
	if fd := funcDecl(sigv, "jsonldProof"); fd != nil {
		ast.Inspect(fd, func(n ast.Node) bool {
			if c, ok := n.(*ast.CallExpr); ok && callName(c) == "ValidAt" {
				for _, a := range c.Args {
					vaArgs = append(vaArgs, exprString(a))
				}
			}
			return true
		})
	}
	l.def("verifierValidAtArgs", "List String", leanStrList(vaArgs), vaArgs)

	// validatePresentationSigner: the if-conditions, and whether the credential-less branch mentions the expected subject
	c3 := conds(val, "validatePresentationSigner")
	l.def("validateSignerConds", "List String", leanStrList(c3), c3)
	c4 := conds(val, "validatePresentationAudience")
	l.def("validateAudienceConds", "List String", leanStrList(c4), c4)
	emptyChecked := false
	if fd := funcDecl(val, "validatePresentationSigner"); fd != nil {
		ast.Inspect(fd, func(n ast.Node) bool {
			if i, ok := n.(*ast.IfStmt); ok && strings.Contains(exprFull(i.Cond), "len(presentation.VerifiableCredential) == 0") {
				ast.Inspect(i.Body, func(m ast.Node) bool {
					if id, ok := m.(*ast.Ident); ok && id.Name == "expectedCredentialSubjectDID" {
						emptyChecked = true
					}
					return true
				})
			}
			return true
		})
	}
	l.def("emptyVpBranchComparesExpected", "Bool", fmt.Sprint(emptyChecked), emptyChecked)

	// every if-condition (verbatim, in source order) of the functions that decide: a weakened comparison flips a fact
	_, credUtil := parseFile("vcr/credential/util.go")
	_, credRes := parseFile("vcr/credential/resolver.go")
	_, polLocal := parseFile("policy/local.go")
	for _, fc := range []struct {
		name string
		f    *ast.File
		fn   string
	}{
		{"condsHandleTokenRequest", api, "HandleTokenRequest"},
		{"condsS2S", s2s, "handleS2SAccessTokenRequest"},
		{"condsS2SNonce", s2s, "validateS2SPresentationNonce"},
		{"condsExtractNonce", s2s, "extractNonce"},
		{"condsExtractChallenge", o4vp, "extractChallenge"},
		{"condsPresentationNonce", o4vp, "validatePresentationNonce"},
		{"condsAuthorizeResponse", o4vp, "handleAuthorizeResponseSubmission"},
		{"condsAuthorizeRequest", o4vp, "handleAuthorizeRequestFromHolder"},
		{"condsCodeToken", o4vp, "handleAccessTokenRequest"},
		{"condsFulfill", sess, "fulfill"},
		{"condsNext", sess, "next"},
		{"condsCreateAccessToken", at, "createAccessToken"},
		{"condsResolveInputDescriptorValues", s2s, "resolveInputDescriptorValues"},
		{"condsIntrospect", api, "introspectAccessToken"},
		{"condsIntrospectPlain", api, "IntrospectAccessToken"},
		{"condsDefinitionForScope", val, "presentationDefinitionForScope"},
		{"condsPresenterIsCredentialSubject", credUtil, "PresenterIsCredentialSubject"},
		{"condsResolveSubjectDID", credUtil, "ResolveSubjectDID"},
		{"condsPresentationSigner", credRes, "PresentationSigner"},
		{"condsLocalPDPDefinitions", polLocal, "PresentationDefinitions"},
		{"condsStoreGet", store, "Get"},
		{"condsStorePut", store, "Put"},
		{"condsPutIfAbsent", store, "PutIfAbsent"},
	} {
		c := conds(fc.f, fc.fn)
		l.def(fc.name, "List String", leanStrList(c), c)
	}
	// return expressions of the small helpers
	rets := func(f *ast.File, fn string) []string {
		fd := funcDecl(f, fn)
		if fd == nil {
			return []string{"MISSING:" + fn}
		}
		var r []string
		ast.Inspect(fd, func(n ast.Node) bool {
			if rs, ok := n.(*ast.ReturnStmt); ok {
				var parts []string
				for _, e := range rs.Results {
					parts = append(parts, exprFull(e))
				}
				r = append(r, strings.Join(parts, ", "))
			}
			return true
		})
		return r
	}
	for _, fc := range []struct {
		name string
		f    *ast.File
		fn   string
	}{
		{"retsSubjectToBaseURL", api, "subjectToBaseURL"},
		{"retsValidatePKCE", pkce, "validatePKCEParams"},
		{"retsIsFulfilled", sess, "isFulfilled"},
		{"retsDpopFromRequest", parseOnly("auth/api/iam/dpop.go"), "dpopFromRequest"},
	} {
		c := rets(fc.f, fc.fn)
		l.def(fc.name, "List String", leanStrList(c), c)
	}
	// the call of the s2s handler in HandleTokenRequest: which request members go where
	var s2sCall []string
	if fd := funcDecl(api, "HandleTokenRequest"); fd != nil {
		ast.Inspect(fd, func(n ast.Node) bool {
			if c, ok := n.(*ast.CallExpr); ok && (callName(c) == "handleS2SAccessTokenRequest" || callName(c) == "handleAccessTokenRequest") {
				for _, a := range c.Args {
					s2sCall = append(s2sCall, exprFull(a))
				}
				s2sCall = append(s2sCall, "|")
			}
			return true
		})
	}
	l.def("tokenRequestDispatchArgs", "List String", leanStrList(s2sCall), s2sCall)
	var grantCases []string
	if fd := funcDecl(api, "HandleTokenRequest"); fd != nil {
		ast.Inspect(fd, func(n ast.Node) bool {
			if sw, ok := n.(*ast.SwitchStmt); ok {
				grantCases = append(grantCases, "switch "+exprFull(sw.Tag))
			}
			if cc, ok := n.(*ast.CaseClause); ok {
				if cc.List == nil {
					grantCases = append(grantCases, "default")
				}
				for _, e := range cc.List {
					grantCases = append(grantCases, exprFull(e))
				}
			}
			return true
		})
	}
	l.def("tokenRequestGrantCases", "List String", leanStrList(grantCases), grantCases)
	// the OAuthSession the authorization request stores
	if fd := funcDecl(o4vp, "handleAuthorizeRequestFromHolder"); fd != nil {
		f := compositeFields(fd, "OAuthSession")
		l.def("authorizeRequestSessionInit", "List String", leanStrList(f), f)
	}
	// key prefixes of the session stores: accessor -> GetStore key arguments (identifiers resolved to their []string literal)
	strVars := map[string][]string{}
	for _, f := range []*ast.File{s2s, api, user, o4vp} {
		for _, d := range f.Decls {
			gd, ok := d.(*ast.GenDecl)
			if !ok || gd.Tok != token.VAR {
				continue
			}
			for _, sp := range gd.Specs {
				vs := sp.(*ast.ValueSpec)
				for i, nm := range vs.Names {
					if i < len(vs.Values) {
						if cl, ok := vs.Values[i].(*ast.CompositeLit); ok {
							var vals []string
							for _, e := range cl.Elts {
								if bl, ok := e.(*ast.BasicLit); ok && bl.Kind == token.STRING {
									v, _ := strconv.Unquote(bl.Value)
									vals = append(vals, v)
								}
							}
							strVars[nm.Name] = vals
						}
					}
				}
			}
		}
	}
	var storeKeys, storeKeyValues []string
	for _, acc := range []struct {
		f  *ast.File
		fn string
	}{{s2s, "s2sNonceStore"}, {api, "accessTokenServerStore"}, {api, "accessTokenClientStore"}, {api, "accessTokenCache"}, {api, "authzRequestObjectStore"},
		{o4vp, "oauthCodeStore"}, {o4vp, "oauthNonceStore"}, {user, "oauthClientStateStore"}, {parseOnly("auth/api/iam/dpop.go"), "useNonceOnceStore"}} {
		fd := funcDecl(acc.f, acc.fn)
		key := "MISSING"
		if fd != nil {
			ast.Inspect(fd, func(n ast.Node) bool {
				if c, ok := n.(*ast.CallExpr); ok && callName(c) == "GetSessionDatabase.GetStore" && len(c.Args) > 1 {
					var parts []string
					for _, a := range c.Args[1:] {
						switch x := a.(type) {
						case *ast.BasicLit:
							v, _ := strconv.Unquote(x.Value)
							parts = append(parts, v)
						case *ast.Ident:
							if v, ok := strVars[x.Name]; ok {
								parts = append(parts, v...)
							} else {
								parts = append(parts, "?"+x.Name)
							}
						default:
							parts = append(parts, "?"+exprFull(a))
						}
					}
					key = strings.Join(parts, "/")
				}
				return true
			})
		}
		storeKeys = append(storeKeys, acc.fn+"="+key)
		storeKeyValues = append(storeKeyValues, key)
	}
	l.def("storeKeyPrefixes", "List String", leanStrList(storeKeys), storeKeys)
	l.def("storeKeyPrefixValues", "List String", leanStrList(storeKeyValues), storeKeyValues)

	// which members of the request object each handler reads (a handler that starts to honour another form parameter flips this)
	reads := func(f *ast.File, fn string) []string {
		fd := funcDecl(f, fn)
		if fd == nil {
			return []string{"MISSING:" + fn}
		}
		seen := map[string]bool{}
		ast.Inspect(fd.Body, func(n ast.Node) bool {
			if sel, ok := n.(*ast.SelectorExpr); ok {
				str := exprString(sel)
				if strings.HasPrefix(str, "request.") {
					seen[str] = true
					return false // the longest chain only
				}
			}
			return true
		})
		return sortedKeys(seen)
	}
	for _, fc := range []struct {
		name string
		f    *ast.File
		fn   string
	}{
		{"readsCodeToken", o4vp, "handleAccessTokenRequest"},
		{"readsHandleTokenRequest", api, "HandleTokenRequest"},
		{"readsAuthorizeResponse", o4vp, "handleAuthorizeResponseSubmission"},
		{"readsAuthorizeResponseDispatch", o4vp, "HandleAuthorizeResponse"},
		{"readsIntrospectPlain", api, "IntrospectAccessToken"},
		{"readsIntrospectExtended", api, "IntrospectAccessTokenExtended"},
	} {
		c := reads(fc.f, fc.fn)
		l.def(fc.name, "List String", leanStrList(c), c)
	}

	// call chains, in source order
	l.chain("chainHandleTokenRequest", api, "HandleTokenRequest")
	l.chain("chainS2S", s2s, "handleS2SAccessTokenRequest")
	l.chain("chainS2SNonce", s2s, "validateS2SPresentationNonce")
	l.chain("chainValidateSigner", val, "validatePresentationSigner")
	l.chain("chainFulfill", sess, "fulfill")
	l.chain("chainCreateAccessToken", at, "createAccessToken")
	l.chain("chainCodeToken", o4vp, "handleAccessTokenRequest")
	l.chain("chainAuthorizeResponse", o4vp, "handleAuthorizeResponseSubmission")
	l.chain("chainPresentationNonce", o4vp, "validatePresentationNonce")
	l.chain("chainIntrospect", api, "introspectAccessToken")
	l.chain("chainIntrospectPlain", api, "IntrospectAccessToken")
	l.chain("chainIntrospectExtended", api, "IntrospectAccessTokenExtended")
	l.chain("chainGetAndDelete", store, "GetAndDelete")
	l.chain("chainPutIfAbsent", store, "PutIfAbsent")

	// VerifyVP arguments in both flows
	vpArgs := func(f *ast.File, fn string) []string {
		var r []string
		if fd := funcDecl(f, fn); fd != nil {
			ast.Inspect(fd, func(n ast.Node) bool {
				if c, ok := n.(*ast.CallExpr); ok && strings.HasSuffix(callName(c), "VerifyVP") {
					for _, a := range c.Args {
						r = append(r, exprString(a))
					}
				}
				return true
			})
		}
		return r
	}
	a1 := vpArgs(s2s, "handleS2SAccessTokenRequest")
	l.def("s2sVerifyVPArgs", "List String", leanStrList(a1), a1)
	a2 := vpArgs(o4vp, "handleAuthorizeResponseSubmission")
	l.def("codeVerifyVPArgs", "List String", leanStrList(a2), a2)

	// createAccessToken arguments at both call sites
	catArgs := func(f *ast.File, fn string) []string {
		var r []string
		if fd := funcDecl(f, fn); fd != nil {
			ast.Inspect(fd, func(n ast.Node) bool {
				if c, ok := n.(*ast.CallExpr); ok && callName(c) == "createAccessToken" {
					for _, a := range c.Args {
						r = append(r, exprString(a))
					}
				}
				return true
			})
		}
		return r
	}
	a3 := catArgs(s2s, "handleS2SAccessTokenRequest")
	l.def("s2sCreateTokenArgs", "List String", leanStrList(a3), a3)
	a4 := catArgs(o4vp, "handleAccessTokenRequest")
	l.def("codeCreateTokenArgs", "List String", leanStrList(a4), a4)

	// composite literals
	if fd := funcDecl(at, "createAccessToken"); fd != nil {
		f := compositeFields(fd, "AccessToken")
		l.def("accessTokenInit", "List String", leanStrList(f), f)
		g := compositeFields(fd, "oauth.TokenResponse")
		l.def("tokenResponseInit", "List String", leanStrList(g), g)
	} else {
		l.def("accessTokenInit", "List String", ".unknown_missing", "MISSING")
	}
	if fd := funcDecl(api, "introspectAccessToken"); fd != nil {
		f := compositeFields(fd, "ExtendedTokenIntrospectionResponse")
		l.def("introspectionInit", "List String", leanStrList(f), f)
		// the reserved claim names: every string literal of the []string ranged over in the function,
		// or, if the range is over an identifier, the package-level []string var of that name
		var reserved []string
		src := "none"
		ast.Inspect(fd, func(n ast.Node) bool {
			rs, ok := n.(*ast.RangeStmt)
			if !ok {
				return true
			}
			var cl *ast.CompositeLit
			switch x := rs.X.(type) {
			case *ast.CompositeLit:
				cl, src = x, "literal"
			case *ast.Ident:
				for _, d := range api.Decls {
					if gd, ok := d.(*ast.GenDecl); ok && gd.Tok == token.VAR {
						for _, s := range gd.Specs {
							vs := s.(*ast.ValueSpec)
							for i, nm := range vs.Names {
								if nm.Name == x.Name && i < len(vs.Values) {
									if c, ok := vs.Values[i].(*ast.CompositeLit); ok {
										cl, src = c, "var:"+x.Name
									}
								}
							}
						}
					}
				}
			}
			if cl == nil {
				return true
			}
			if at, ok := cl.Type.(*ast.ArrayType); !ok || exprString(at.Elt) != "string" {
				return true
			}
			for _, e := range cl.Elts {
				if bl, ok := e.(*ast.BasicLit); ok && bl.Kind == token.STRING {
					s, _ := strconv.Unquote(bl.Value)
					reserved = append(reserved, s)
				} else {
					reserved = append(reserved, "?"+exprString(e))
				}
			}
			return true
		})
		l.def("reservedClaims", "List String", leanStrList(reserved), reserved)
		l.def("reservedClaimsSource", "String", fmt.Sprintf("%q", src), src)
		// what the reserved check guards and what is assigned afterwards
		var assign []string
		ast.Inspect(fd, func(n ast.Node) bool {
			if as, ok := n.(*ast.AssignStmt); ok && len(as.Lhs) == 1 && exprString(as.Lhs[0]) == "response.AdditionalProperties" {
				assign = append(assign, exprString(as.Rhs[0]))
			}
			return true
		})
		l.def("additionalPropertiesSource", "List String", leanStrList(assign), assign)
	}
	// fields nilled by the non-extended endpoint
	var nilled []string
	if fd := funcDecl(api, "IntrospectAccessToken"); fd != nil {
		ast.Inspect(fd, func(n ast.Node) bool {
			if as, ok := n.(*ast.AssignStmt); ok && len(as.Lhs) == 1 && len(as.Rhs) == 1 && exprString(as.Rhs[0]) == "nil" {
				if s := exprString(as.Lhs[0]); strings.HasPrefix(s, "response.") {
					nilled = append(nilled, strings.TrimPrefix(s, "response."))
				}
			}
			return true
		})
	}
	l.def("plainIntrospectionNilled", "List String", leanStrList(nilled), nilled)

	// response struct: Go field name -> json name (in declaration order); "-" = not marshalled by encoding/json
	var fields, goNames []string
	for _, d := range gen.Decls {
		gd, ok := d.(*ast.GenDecl)
		if !ok || gd.Tok != token.TYPE {
			continue
		}
		for _, s := range gd.Specs {
			ts := s.(*ast.TypeSpec)
			st, ok := ts.Type.(*ast.StructType)
			if !ok || ts.Name.Name != "ExtendedTokenIntrospectionResponse" {
				continue
			}
			for _, f := range st.Fields.List {
				tag := strings.Split(jsonTag(f), ",")[0]
				for _, n := range f.Names {
					if tag == "-" {
						goNames = append(goNames, n.Name+"=-")
						continue
					}
					goNames = append(goNames, n.Name+"="+tag)
					fields = append(fields, tag)
				}
			}
		}
	}
	l.def("introspectionFields", "List String", leanStrList(fields), fields)
	l.def("introspectionGoFields", "List String", leanStrList(goNames), goNames)

	// generated MarshalJSON: order of object[...] assignments; "*" = the AdditionalProperties loop
	var order []string
	for _, d := range gen.Decls {
		fd, ok := d.(*ast.FuncDecl)
		if !ok || fd.Name.Name != "MarshalJSON" || fd.Recv == nil || len(fd.Recv.List) != 1 ||
			exprString(fd.Recv.List[0].Type) != "ExtendedTokenIntrospectionResponse" {
			continue
		}
		var walk func(n ast.Node, inLoop bool)
		walk = func(n ast.Node, inLoop bool) {
			ast.Inspect(n, func(m ast.Node) bool {
				switch x := m.(type) {
				case *ast.RangeStmt:
					if exprString(x.X) == "a.AdditionalProperties" {
						walk(x.Body, true)
						return false
					}
				case *ast.AssignStmt:
					if len(x.Lhs) >= 1 {
						if ix, ok := x.Lhs[0].(*ast.IndexExpr); ok && exprString(ix.X) == "object" {
							if inLoop {
								order = append(order, "*")
							} else if bl, ok := ix.Index.(*ast.BasicLit); ok {
								s, _ := strconv.Unquote(bl.Value)
								order = append(order, s)
							} else {
								order = append(order, "?"+exprString(ix.Index))
							}
						}
					}
				}
				return true
			})
		}
		walk(fd.Body, false)
	}
	l.def("marshalAssignOrder", "List String", leanStrList(order), order)
	// which response types use the generated marshaller (have their own MarshalJSON delegating to it)
	var delegating []string
	for _, f := range []*ast.File{silly, gen} {
		for _, d := range f.Decls {
			if fd, ok := d.(*ast.FuncDecl); ok && fd.Name.Name == "MarshalJSON" && fd.Recv != nil && len(fd.Recv.List) == 1 {
				delegating = append(delegating, exprString(fd.Recv.List[0].Type))
			}
		}
	}
	l.def("typesWithMarshalJSON", "List String", leanStrList(delegating), delegating)

	// PKCE: accepted challenge methods (case clauses of validatePKCEParams)
	var methods []string
	if fd := funcDecl(pkce, "validatePKCEParams"); fd != nil {
		ast.Inspect(fd, func(n ast.Node) bool {
			if cc, ok := n.(*ast.CaseClause); ok {
				for _, e := range cc.List {
					if bl, ok := e.(*ast.BasicLit); ok {
						s, _ := strconv.Unquote(bl.Value)
						methods = append(methods, s)
					}
				}
			}
			return true
		})
		c := callChain(fd.Body)
		l.def("chainValidatePKCE", "List String", leanStrList(c), c)
	}
	l.def("pkceMethods", "List String", leanStrList(methods), methods)
	c02JarFacts(l)
	c02DpopFacts(l, consts, ttlOf)
	return l
}
