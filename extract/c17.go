package main

// C17 facts. Self-contained (only main.go helpers are visible to this build).

import (
	"bytes"
	"fmt"
	"io/fs"
	"os"
	"path/filepath"
	"sort"
	"go/ast"
	"go/printer"
	"go/token"
	"strings"
)

func init() { extractors["C17"] = extractC17 }

var c17Jwa = map[string]string{
	"ES256": "ES256", "ES256K": "ES256K", "ES384": "ES384", "ES512": "ES512", "EdDSA": "EdDSA",
	"HS256": "HS256", "HS384": "HS384", "HS512": "HS512", "NoSignature": "none",
	"PS256": "PS256", "PS384": "PS384", "PS512": "PS512", "RS256": "RS256", "RS384": "RS384", "RS512": "RS512",
}
var c17JwtKeys = map[string]string{
	"JwtIDKey": "jti", "IssuedAtKey": "iat", "ExpirationKey": "exp", "NotBeforeKey": "nbf",
	"AudienceKey": "aud", "IssuerKey": "iss", "SubjectKey": "sub",
}
var c17HdrAccessors = map[string]string{"JWK": "jwk", "JWKSetURL": "jku", "X509CertChain": "x5c", "X509URL": "x5u"}

func c17Src(n ast.Node) string {
	var b bytes.Buffer
	_ = printer.Fprint(&b, token.NewFileSet(), n)
	return strings.Join(strings.Fields(b.String()), " ")
}

func c17Mapped(idents []string, table map[string]string) (string, []string) {
	var q, raw []string
	for _, id := range idents {
		if v, ok := table[id]; ok {
			q = append(q, fmt.Sprintf("%q", v))
			raw = append(raw, v)
		} else {
			q = append(q, "unknown_"+id) // does not elaborate
			raw = append(raw, "?"+id)
		}
	}
	return "[" + strings.Join(q, ", ") + "]", raw
}

// does the block return with a non-nil last result (an error) at its top level?
func c17ReturnsError(body *ast.BlockStmt) bool {
	for _, s := range body.List {
		if r, ok := s.(*ast.ReturnStmt); ok && len(r.Results) > 0 {
			last := r.Results[len(r.Results)-1]
			if id, ok := last.(*ast.Ident); ok && (id.Name == "nil" || id.Name == "true" || id.Name == "false") {
				return false
			}
			return true
		}
	}
	return false
}

// the conditions (verbatim, with their init statement) under which a function returns an error, in source order;
// else-if chains included
func c17ErrConds(fn *ast.FuncDecl) []string {
	var res []string
	if fn == nil {
		return []string{"FUNCTION-MISSING"}
	}
	ast.Inspect(fn, func(n ast.Node) bool {
		if is, ok := n.(*ast.IfStmt); ok && c17ReturnsError(is.Body) {
			c := c17Src(is.Cond)
			if is.Init != nil {
				c = c17Src(is.Init) + "; " + c
			}
			res = append(res, c)
		}
		return true
	})
	return res
}

func c17Calls(fn *ast.FuncDecl) []string {
	var res []string
	seen := map[string]bool{}
	if fn == nil {
		return []string{"FUNCTION-MISSING"}
	}
	ast.Inspect(fn, func(n ast.Node) bool {
		if c, ok := n.(*ast.CallExpr); ok {
			s := exprString(c.Fun)
			if !seen[s] && !strings.Contains(s, "<") {
				seen[s] = true
				res = append(res, s)
			}
		}
		return true
	})
	return res
}

func c17VarList(f *ast.File, name string) []string {
	var res []string
	found := false
	for _, d := range f.Decls {
		gd, ok := d.(*ast.GenDecl)
		if !ok || gd.Tok != token.VAR {
			continue
		}
		for _, sp := range gd.Specs {
			vs := sp.(*ast.ValueSpec)
			for i, n := range vs.Names {
				if n.Name == name && i < len(vs.Values) {
					if cl, ok := vs.Values[i].(*ast.CompositeLit); ok {
						found = true
						for _, e := range cl.Elts {
							res = append(res, strings.TrimPrefix(exprString(e), "jwa."))
						}
					}
				}
			}
		}
	}
	if !found {
		return []string{"VAR-MISSING-" + name}
	}
	return res
}

func c17Has(l []string, s string) bool {
	for _, x := range l {
		if x == s {
			return true
		}
	}
	return false
}

func c17Bool(b bool) string {
	if b {
		return "true"
	}
	return "false"
}

// method receiver functions: funcDecl of main.go matches by name only, which is what we need
func extractC17() *lean {
	l := newLean("C17", "NutsModel.C17.TokenPolicy")
	l.sb.WriteString("open Nuts.C17 Nuts.C04\n")

	// ---- allow-lists
	_, algF := parseFile("crypto/jwx/algorithm.go")
	sup, supRaw := c17Mapped(c17VarList(algF, "SupportedAlgorithms"), c17Jwa)
	l.def("supportedAlgs", "List String", sup, supRaw)
	_, txF := parseFile("network/dag/transaction.go")
	dagA, dagRaw := c17Mapped(c17VarList(txF, "allowedAlgos"), c17Jwa)
	l.def("dagAllowedAlgs", "List String", dagA, dagRaw)

	// ---- crypto/jwx.go
	_, jwxF := parseFile("crypto/jwx.go")
	kidAlg := c17ErrConds(funcDecl(jwxF, "JWTKidAlg"))
	l.def("jwtKidAlgErrConds", "List String", leanStrList(kidAlg), kidAlg)
	pj := c17ErrConds(funcDecl(jwxF, "ParseJWT"))
	l.def("parseJWTErrConds", "List String", leanStrList(pj), pj)
	pjCalls := c17Calls(funcDecl(jwxF, "ParseJWT"))
	l.def("parseJWTCalls", "List String", leanStrList(pjCalls), pjCalls)
	ps := c17ErrConds(funcDecl(jwxF, "ParseJWS"))
	l.def("parseJWSErrConds", "List String", leanStrList(ps), ps)
	psCalls := c17Calls(funcDecl(jwxF, "ParseJWS"))
	l.def("parseJWSCalls", "List String", leanStrList(psCalls), psCalls)
	rule := ".none"
	if c17Has(ps, "len(signatures) != 1") || c17Has(ps, "len(message.Signatures()) != 1") {
		rule = ".exactlyOne"
	}
	l.def("parseJWSCountRule", "CountRule", rule, rule)
	mode := ".unknown_verify_mode"
	switch {
	case c17Has(psCalls, "jws.SplitCompact") && c17Has(psCalls, "verifier.Verify") && !c17Has(psCalls, "jws.Verify"):
		mode = ".splitCompact"
	case c17Has(psCalls, "jws.Verify") && !c17Has(psCalls, "jws.SplitCompact") && !c17Has(psCalls, "verifier.Verify"):
		mode = ".library"
	}
	l.def("parseJWSVerifyMode", "VerifyMode", mode, mode)
	// the algorithms LD-proof verification can derive from a key
	var sigAlgs []string
	for _, fn := range []string{"SignatureAlgorithm", "ecAlgUsingPublicKey"} {
		if fd := funcDecl(jwxF, fn); fd != nil {
			ast.Inspect(fd, func(n ast.Node) bool {
				if se, ok := n.(*ast.SelectorExpr); ok && exprString(se.X) == "jwa" && se.Sel.Name != "SignatureAlgorithm" {
					if !c17Has(sigAlgs, se.Sel.Name) {
						sigAlgs = append(sigAlgs, se.Sel.Name)
					}
				}
				return true
			})
		} else {
			sigAlgs = append(sigAlgs, "MISSING_"+fn)
		}
	}
	sa, saRaw := c17Mapped(sigAlgs, c17Jwa)
	l.def("keyDerivedAlgs", "List String", sa, saRaw)

	// ---- crypto/dpop/dpop.go
	_, dpF := parseFile("crypto/dpop/dpop.go")
	dp := c17ErrConds(funcDecl(dpF, "Parse"))
	l.def("dpopParseErrConds", "List String", leanStrList(dp), dp)
	dpCalls := c17Calls(funcDecl(dpF, "Parse"))
	l.def("dpopParseCalls", "List String", leanStrList(dpCalls), dpCalls)
	// the verification call of dpop.Parse, verbatim: algorithm and key both come from the protected header
	dpVerify := "MISSING"
	if fd := funcDecl(dpF, "Parse"); fd != nil {
		ast.Inspect(fd, func(n ast.Node) bool {
			if c, ok := n.(*ast.CallExpr); ok && exprString(c.Fun) == "jwt.ParseString" {
				dpVerify = c17Src(c)
			}
			return true
		})
	}
	l.def("dpopVerifyCall", "String", fmt.Sprintf("%q", dpVerify), dpVerify)
	typ := "MISSING"
	for _, c := range dp {
		if strings.HasPrefix(c, "headers.Type() != ") {
			typ = strings.Trim(strings.TrimPrefix(c, "headers.Type() != "), "\"")
		}
	}
	l.def("dpopTyp", "String", fmt.Sprintf("%q", typ), typ)

	// ---- network/dag/parser.go, verifier.go
	_, paF := parseFile("network/dag/parser.go")
	pt := c17ErrConds(funcDecl(paF, "ParseTransaction"))
	l.def("parseTransactionErrConds", "List String", leanStrList(pt), pt)
	l.def("dagStrictFraming", "Bool", c17Bool(c17Has(pt, "!isJWSSerialization(input)")), c17Has(pt, "!isJWSSerialization(input)"))
	// the framing test itself, verbatim (the harness re-states it to produce the verdict)
	isf := "MISSING"
	if fd := funcDecl(paF, "isJWSSerialization"); fd != nil {
		isf = c17Src(fd.Body)
	}
	l.def("isJWSSerializationBody", "String", fmt.Sprintf("%q", isf), isf)
	psa := c17ErrConds(funcDecl(paF, "parseSigningAlgorithm"))
	l.def("parseSigningAlgorithmErrConds", "List String", leanStrList(psa), psa)
	psp := c17ErrConds(funcDecl(paF, "parseSignatureParams"))
	l.def("parseSignatureParamsErrConds", "List String", leanStrList(psp), psp)
	var steps []string
	if fd := funcDecl(paF, "ParseTransaction"); fd != nil {
		ast.Inspect(fd, func(n ast.Node) bool {
			if cl, ok := n.(*ast.CompositeLit); ok && strings.Contains(c17Src(cl.Type), "transactionParseStep") {
				for _, e := range cl.Elts {
					steps = append(steps, exprString(e))
				}
			}
			return true
		})
	}
	l.def("parseTransactionSteps", "List String", leanStrList(steps), steps)
	_, veF := parseFile("network/dag/verifier.go")
	vCalls := c17Calls(funcDecl(veF, "NewTransactionSignatureVerifier"))
	l.def("dagSignatureVerifierCalls", "List String", leanStrList(vCalls), vCalls)
	// does the parser / verifier look at whether an embedded jwk is a private key?
	priv := false
	for _, c := range append(append([]string{}, psp...), c17ErrConds(funcDecl(veF, "NewTransactionSignatureVerifier"))...) {
		if strings.Contains(c, "rivate") {
			priv = true
		}
	}
	// … or a (type) switch case over private key types that returns an error
	var privCases []string
	if fd := funcDecl(paF, "parseSignatureParams"); fd != nil {
		ast.Inspect(fd, func(n ast.Node) bool {
			if cc, ok := n.(*ast.CaseClause); ok && c17ReturnsError(&ast.BlockStmt{List: cc.Body}) {
				for _, e := range cc.List {
					privCases = append(privCases, c17Src(e))
				}
			}
			return true
		})
	}
	l.def("parseSignatureParamsRejectedKeyTypes", "List String", leanStrList(privCases), privCases)
	if c17Has(privCases, "jwk.ECDSAPrivateKey") && c17Has(privCases, "jwk.RSAPrivateKey") && c17Has(privCases, "jwk.OKPPrivateKey") {
		priv = true
	}
	l.def("dagRejectsPrivateJwk", "Bool", c17Bool(priv), priv)

	// ---- http/tokenV2/middleware.go (the same policy record C04 uses, extracted again: builds are per property)
	_, mw := parseFile("http/tokenV2/middleware.go")
	maxLen := "0"
	for _, d := range mw.Decls {
		if gd, ok := d.(*ast.GenDecl); ok && gd.Tok == token.CONST {
			for _, sp := range gd.Specs {
				vs := sp.(*ast.ValueSpec)
				for i, n := range vs.Names {
					if n.Name == "MaximumCredentialLength" && i < len(vs.Values) {
						maxLen = exprString(vs.Values[i])
					}
				}
			}
		}
	}
	var algs []string
	if fd := funcDecl(mw, "acceptableSignatureAlgorithm"); fd != nil {
		ast.Inspect(fd, func(n ast.Node) bool {
			if cc, ok := n.(*ast.CaseClause); ok {
				ret := false
				for _, s := range cc.Body {
					if r, ok := s.(*ast.ReturnStmt); ok && len(r.Results) == 1 && exprString(r.Results[0]) == "true" {
						ret = true
					}
				}
				if ret {
					if cc.List == nil {
						algs = append(algs, "DEFAULT_CASE_RETURNS_TRUE")
					}
					for _, e := range cc.List {
						algs = append(algs, strings.TrimPrefix(exprString(e), "jwa."))
					}
				}
			}
			return true
		})
	}
	algLean, algRaw := c17Mapped(algs, c17Jwa)
	cis := c17ErrConds(funcDecl(mw, "credentialIsSecure"))
	l.def("credentialIsSecureErrConds", "List String", leanStrList(cis), cis)
	var forb []string
	sigRule, sigRuleRaw := ".unknown_sig_rule", "MISSING"
	for _, c := range cis {
		if strings.HasPrefix(c, "signature.ProtectedHeaders().") {
			acc := strings.TrimPrefix(c, "signature.ProtectedHeaders().")
			forb = append(forb, acc[:strings.Index(acc, "(")])
		}
		if c == "len(message.Signatures()) != 1" {
			sigRule, sigRuleRaw = ".exactlyOne", c
		}
	}
	if sigRuleRaw == "MISSING" {
		if fd := funcDecl(mw, "credentialIsSecure"); fd != nil && strings.Contains(c17Src(fd.Body), "if secureSignatureCount > 0 { return nil }") {
			sigRule, sigRuleRaw = ".atLeastOne", "secureSignatureCount > 0"
		}
	}
	forbLean, forbRaw := c17Mapped(forb, c17HdrAccessors)
	var mand []string
	if fd := funcDecl(mw, "mandatoryJWTFields"); fd != nil {
		ast.Inspect(fd, func(n ast.Node) bool {
			if cl, ok := n.(*ast.CompositeLit); ok {
				for _, e := range cl.Elts {
					mand = append(mand, strings.TrimPrefix(exprString(e), "jwt."))
				}
			}
			return true
		})
	}
	mandLean, mandRaw := c17Mapped(mand, c17JwtKeys)
	bp := c17ErrConds(funcDecl(mw, "bestPracticesCheck"))
	var lifetimes []string
	if fd := funcDecl(mw, "bestPracticesCheck"); fd != nil {
		ast.Inspect(fd, func(n ast.Node) bool {
			if x, ok := n.(*ast.CallExpr); ok && exprString(x.Fun) == "time.Duration" && len(x.Args) == 1 {
				lifetimes = append(lifetimes, exprString(x.Args[0]))
			}
			return true
		})
	}
	life := "unknown_lifetime_constants"
	if len(lifetimes) > 0 {
		life = lifetimes[0]
		for _, v := range lifetimes {
			if v != lifetimes[0] {
				life = "unknown_lifetime_constants"
			}
		}
	}
	expPos := c17Has(bp, "token.Expiration().Unix() <= 0")
	l.sb.WriteString("def apiPolicy : Policy :=\n  { maxCredLen := " + maxLen + "\n    acceptableAlgs := " + algLean + "\n    forbiddenHdrs := " + forbLean +
		"\n    sigRule := " + sigRule + "\n    mandatory := " + mandLean + "\n    maxLifetimeMin := " + life + "\n    expMustBePositive := " + c17Bool(expPos) + " }\n")
	l.facts["apiPolicy"] = map[string]interface{}{"maxCredLen": maxLen, "acceptableAlgs": algRaw, "forbiddenHdrs": forbRaw, "sigRule": sigRuleRaw,
		"mandatory": mandRaw, "maxLifetimeMin": lifetimes, "expMustBePositive": expPos}

	// ---- consumers that are modelled but have no harness: the error conditions are pinned so that a change is noticed
	_, jarF := parseFile("auth/api/iam/jar.go")
	jv := c17ErrConds(funcDecl(jarF, "validate"))
	l.def("jarValidateErrConds", "List String", leanStrList(jv), jv)
	jvCalls := c17Calls(funcDecl(jarF, "validate"))
	l.def("jarValidateCalls", "List String", leanStrList(jvCalls), jvCalls)
	_, ldF := parseFile("vcr/signature/proof/jsonld.go")
	ld := c17ErrConds(funcDecl(ldF, "Verify"))
	l.def("ldProofVerifyErrConds", "List String", leanStrList(ld), ld)
	ldCalls := c17Calls(funcDecl(ldF, "Verify"))
	l.def("ldProofVerifyCalls", "List String", leanStrList(ldCalls), ldCalls)
	_, svF := parseFile("vcr/verifier/signature_verifier.go")
	vj := c17ErrConds(funcDecl(svF, "jwtSignature"))
	l.def("vcJwtSignatureErrConds", "List String", leanStrList(vj), vj)
	vjCalls := c17Calls(funcDecl(svF, "jwtSignature"))
	l.def("vcJwtSignatureCalls", "List String", leanStrList(vjCalls), vjCalls)
	vl := c17ErrConds(funcDecl(svF, "jsonldProof"))
	l.def("vcJsonLdErrConds", "List String", leanStrList(vl), vl)
	// does jsonldProof rewrite the `proof` member before unmarshalling it (e.g. pick an element of a proof array)?
	var proofAssign []string
	if fd := funcDecl(svF, "jsonldProof"); fd != nil {
		ast.Inspect(fd, func(n ast.Node) bool {
			if as, ok := n.(*ast.AssignStmt); ok {
				for _, lhs := range as.Lhs {
					if strings.Contains(c17Src(lhs), `["proof"]`) {
						proofAssign = append(proofAssign, c17Src(as))
					}
				}
			}
			return true
		})
	}
	l.def("vcJsonLdProofAssignments", "List String", leanStrList(proofAssign), proofAssign)
	vlCalls := c17Calls(funcDecl(svF, "jsonldProof"))
	l.def("vcJsonLdCalls", "List String", leanStrList(vlCalls), vlCalls)
	// ---- process-global allow-list and verifier wiring: who calls AddSupportedAlgorithm / installs the DAG signature verifier
	callers := map[string][]string{"AddSupportedAlgorithm(": nil, "NewTransactionSignatureVerifier(": nil}
	_ = filepath.WalkDir(repo, func(path string, d fs.DirEntry, err error) error {
		if err != nil {
			return nil
		}
		if d.IsDir() {
			if n := d.Name(); n == ".git" || n == "vendor" || n == "docs" || n == "e2e-tests" {
				return filepath.SkipDir
			}
			return nil
		}
		if !strings.HasSuffix(path, ".go") || strings.HasSuffix(path, "_test.go") || strings.Contains(path, "zz_verif") {
			return nil
		}
		b, err := os.ReadFile(path)
		if err != nil {
			return nil
		}
		rel, _ := filepath.Rel(repo, path)
		for k := range callers {
			if bytes.Contains(b, []byte(k)) && !bytes.Contains(b, []byte("func "+k)) {
				callers[k] = append(callers[k], rel)
			}
		}
		return nil
	})
	for _, k := range []string{"AddSupportedAlgorithm(", "NewTransactionSignatureVerifier("} {
		sort.Strings(callers[k])
	}
	l.def("addSupportedAlgorithmCallers", "List String", leanStrList(callers["AddSupportedAlgorithm("]), callers["AddSupportedAlgorithm("])
	l.def("dagSignatureVerifierInstalledIn", "List String", leanStrList(callers["NewTransactionSignatureVerifier("]), callers["NewTransactionSignatureVerifier("])
	// ---- alg fits key (ECDSA curve): the helper, verbatim, and who calls it
	fitBody := "MISSING"
	if fd := funcDecl(algF, "AlgorithmFitsKey"); fd != nil {
		fitBody = c17Src(fd.Body)
	}
	l.def("algorithmFitsKeyBody", "String", fmt.Sprintf("%q", fitBody), fitBody)
	// the bearer-token key loop treats "jwx verified but the header algorithm does not fit the authorised key" as not verified
	klFit := "MISSING"
	if fd := funcDecl(mw, "checkConnectionAuthorization"); fd != nil {
		ast.Inspect(fd, func(n ast.Node) bool {
			if is, ok := n.(*ast.IfStmt); ok && strings.Contains(c17Src(is.Cond), "credentialAlgorithmFitsKey") {
				klFit = c17Src(is.Cond) + " => " + c17Src(is.Body)
			}
			return true
		})
	}
	l.def("apiTokenKeyLoopFitTest", "String", fmt.Sprintf("%q", klFit), klFit)
	cfCalls := c17Calls(funcDecl(mw, "credentialAlgorithmFitsKey"))
	l.def("credentialAlgorithmFitsKeyCalls", "List String", leanStrList(cfCalls), cfCalls)
	l.def("dpopChecksAlgFit", "Bool", c17Bool(strings.Contains(strings.Join(dp, " "), "AlgorithmFitsKey")), strings.Contains(strings.Join(dp, " "), "AlgorithmFitsKey"))
	dagFit := strings.Contains(strings.Join(vCalls, " "), "AlgorithmFitsKey") || strings.Contains(strings.Join(psp, " "), "AlgorithmFitsKey") || strings.Contains(strings.Join(psa, " "), "AlgorithmFitsKey")
	l.def("dagChecksAlgFit", "Bool", c17Bool(dagFit), dagFit)
	_, azF := parseFile("auth/services/oauth/authz_server.go")
	vi := c17ErrConds(funcDecl(azF, "validateIssuer"))
	l.def("validateIssuerErrConds", "List String", leanStrList(vi), vi)
	kidBound := false
	for _, c := range vi {
		if strings.Contains(c, "vContext.kid") && strings.Contains(c, "vContext.requester") && strings.Contains(c, "!=") {
			kidBound = true
		}
	}
	l.def("authzV1ChecksKidIssuer", "Bool", c17Bool(kidBound), kidBound)
	pb := c17Calls(funcDecl(azF, "parseAndValidateJwtBearerToken"))
	l.def("parseBearerTokenCalls", "List String", leanStrList(pb), pb)
	ic := c17Calls(funcDecl(azF, "IntrospectAccessToken"))
	l.def("introspectCalls", "List String", leanStrList(ic), ic)
	ie := c17ErrConds(funcDecl(azF, "IntrospectAccessToken"))
	l.def("introspectErrConds", "List String", leanStrList(ie), ie)
	// ---- long-lived objects that verify tokens: what they hold. Anything that could remember a resolved key (map, cache, sync.Map,
	// variables captured by a returned closure) must show up here.
	structFields := func(f *ast.File, name string) []string {
		var res []string
		found := false
		for _, d := range f.Decls {
			if gd, ok := d.(*ast.GenDecl); ok && gd.Tok == token.TYPE {
				for _, sp := range gd.Specs {
					ts := sp.(*ast.TypeSpec)
					if st, ok := ts.Type.(*ast.StructType); ok && ts.Name.Name == name {
						found = true
						for _, fl := range st.Fields.List {
							for _, n := range fl.Names {
								res = append(res, n.Name+" "+c17Src(fl.Type))
							}
						}
					}
				}
			}
		}
		if !found {
			return []string{"STRUCT-MISSING-" + name}
		}
		return res
	}
	jf := structFields(jarF, "jar")
	l.def("jarFields", "List String", leanStrList(jf), jf)
	sf := structFields(svF, "signatureVerifier")
	l.def("signatureVerifierFields", "List String", leanStrList(sf), sf)
	af := structFields(azF, "authzServer")
	l.def("authzServerFields", "List String", leanStrList(af), af)
	// NewTransactionSignatureVerifier returns a closure: variables declared in the constructor outside it are its state
	var closureState []string
	if fd := funcDecl(veF, "NewTransactionSignatureVerifier"); fd != nil {
		for _, st := range fd.Body.List {
			switch x := st.(type) {
			case *ast.DeclStmt, *ast.AssignStmt:
				closureState = append(closureState, c17Src(x))
			case *ast.ReturnStmt:
			default:
				closureState = append(closureState, "stmt: "+c17Src(x))
			}
		}
	} else {
		closureState = []string{"FUNCTION-MISSING"}
	}
	l.def("dagVerifierClosureState", "List String", leanStrList(closureState), closureState)
	extractC17b(l)
	extractC17c(l)
	extractC17d(l)
	extractC17e(l)
	extractC17f(l)
	return l
}
