package main

// C18 (deepening round): vdr/didkey/resolver.go — the multicodec switch of Resolve (case -> what it does with the key
// bytes) and the numeric values of the multicodec constants (from the go-multicodec module version of /repo/go.mod).

import (
	"fmt"
	"go/ast"
	"go/parser"
	"go/token"
	"os"
	"os/exec"
	"path/filepath"
	"regexp"
	"strconv"
	"strings"
)

func c18MulticodecValues() map[string]uint64 {
	res := map[string]uint64{}
	gomod, err := os.ReadFile(filepath.Join(repo, "go.mod"))
	if err != nil {
		return res
	}
	m := regexp.MustCompile(`github.com/multiformats/go-multicodec (v\S+)`).FindSubmatch(gomod)
	if m == nil {
		return res
	}
	cache := os.Getenv("GOMODCACHE")
	if cache == "" {
		if o, err := exec.Command("go", "env", "GOMODCACHE").Output(); err == nil {
			cache = strings.TrimSpace(string(o))
		}
	}
	f, err := parser.ParseFile(token.NewFileSet(), filepath.Join(cache, "github.com", "multiformats", "go-multicodec@"+string(m[1]), "code_table.go"), nil, 0)
	if err != nil {
		return res
	}
	ast.Inspect(f, func(n ast.Node) bool {
		if vs, ok := n.(*ast.ValueSpec); ok {
			for i, nm := range vs.Names {
				if i < len(vs.Values) {
					if bl, ok := vs.Values[i].(*ast.BasicLit); ok && bl.Kind == token.INT {
						if v, err := strconv.ParseUint(bl.Value, 0, 64); err == nil {
							res[nm.Name] = v
						}
					}
				}
			}
		}
		return true
	})
	return res
}

// c18KeyFacts prints `didKeyTable : List (Nat × String × KeyAct)` (code, constant name, action) in switch order.
func c18KeyFacts(l *lean) {
	_, f := parseFile("vdr/didkey/resolver.go")
	vals := c18MulticodecValues()
	var rows, raw []string
	hasDefaultErr := false
	var prelude []string // the conditions that refuse before the switch
	if fd := funcDecl(f, "Resolve"); fd != nil {
		for _, st := range fd.Body.List {
			if is, ok := st.(*ast.IfStmt); ok {
				prelude = append(prelude, condString(is.Cond))
			}
			sw, ok := st.(*ast.SwitchStmt)
			if !ok {
				continue
			}
			for _, c := range sw.Body.List {
				cc := c.(*ast.CaseClause)
				if cc.List == nil {
					for _, b := range cc.Body {
						if r, ok := b.(*ast.ReturnStmt); ok && len(r.Results) == 3 && exprString(r.Results[0]) == "nil" {
							hasDefaultErr = true
						}
					}
					continue
				}
				// classify the body
				act := ".unknown_"
				var lenCheck, ecLen string
				returnsErrFirst := false
				ast.Inspect(cc, func(n ast.Node) bool {
					switch x := n.(type) {
					case *ast.BinaryExpr:
						if exprString(x.X) == "keyLength" && x.Op == token.NEQ {
							lenCheck = exprString(x.Y)
						}
					case *ast.CallExpr:
						switch exprString(x.Fun) {
						case "unmarshalEC":
							if len(x.Args) == 3 {
								ecLen = exprString(x.Args[1])
							}
						case "x509.ParsePKCS1PublicKey":
							act = ".rsa"
						}
					}
					return true
				})
				if len(cc.Body) == 1 {
					if r, ok := cc.Body[0].(*ast.ReturnStmt); ok && len(r.Results) == 3 && exprString(r.Results[0]) == "nil" {
						returnsErrFirst = true
					}
				}
				switch {
				case returnsErrFirst:
					act = ".unsupported"
				case ecLen != "":
					if ecLen == "-1" {
						act = "(.ec none)"
					} else {
						act = "(.ec (some " + ecLen + "))"
					}
				case lenCheck != "" && act != ".rsa":
					act = "(.fixedLen " + lenCheck + ")"
				}
				for _, e := range cc.List {
					name := strings.TrimPrefix(exprString(e), "multicodec.")
					v, ok := vals[name]
					code := fmt.Sprintf("%d", v)
					if !ok {
						code = ".unknown_code_" + name
					}
					rows = append(rows, fmt.Sprintf("(%s, %q, %s)", code, name, act))
					raw = append(raw, fmt.Sprintf("%s=%s:%s", name, code, act))
				}
			}
		}
	}
	l.def("didKeyTable", "List (Nat × String × Nuts.C18.KeyAct)", "["+strings.Join(rows, ", ")+"]", raw)
	l.def("didKeyDefaultRefuses", "Bool", fmt.Sprintf("%v", hasDefaultErr), hasDefaultErr)
	l.def("didKeyPrelude", "List String", leanStrList(prelude), prelude)
}
