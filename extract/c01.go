package main

import (
	"fmt"
	"go/ast"
	"go/token"
	"strconv"
	"strings"
)

func init() { extractors["C01"] = extractC01 }

// c01Returns lists, in source order, every `return` of fn (closures included) that can return a non-nil error,
// rendered as "<enclosing if/case guards, outermost first, joined by ' && '> => <returned error expression>".
// It prints what the source says; the Lean model's check tables must be equal to these lists.
func c01Returns(fn *ast.FuncDecl) []string {
	var out []string
	if fn == nil {
		return []string{"MISSING"}
	}
	var walk func(n ast.Node, guards []string)
	// an `if err != nil` (no init) is rendered together with the statement that assigned err just before it
	prevOf := map[ast.Stmt]ast.Stmt{}
	walkList := func(l []ast.Stmt, guards []string) {
		for i, s := range l {
			if i > 0 {
				prevOf[s] = l[i-1]
			}
			walk(s, guards)
		}
	}
	walk = func(n ast.Node, guards []string) {
		switch x := n.(type) {
		case nil:
			return
		case *ast.BlockStmt:
			if x != nil {
				walkList(x.List, guards)
			}
		case *ast.IfStmt:
			g := c01Expr(x.Cond)
			if x.Init == nil && strings.Contains(g, "err") {
				if as, ok := prevOf[x].(*ast.AssignStmt); ok && strings.Contains(c01Stmt(as), "err") {
					g = c01Stmt(as) + "; " + g
				}
			}
			if x.Init != nil {
				// closures inside the init statement (none today) and the init text itself
				g = c01Stmt(x.Init) + "; " + g
				walk(x.Init, guards)
			}
			walk(x.Body, append(append([]string{}, guards...), g))
			if x.Else != nil {
				walk(x.Else, append(append([]string{}, guards...), "!("+g+")"))
			}
		case *ast.SwitchStmt:
			tag := ""
			if x.Tag != nil {
				tag = c01Expr(x.Tag)
			}
			for _, c := range x.Body.List {
				cc := c.(*ast.CaseClause)
				var labels []string
				for _, e := range cc.List {
					labels = append(labels, c01Expr(e))
				}
				g := "switch " + tag + " case " + strings.Join(labels, ",")
				if cc.List == nil {
					g = "switch " + tag + " default"
				}
				walkList(cc.Body, append(append([]string{}, guards...), g))
			}
		case *ast.ForStmt:
			walk(x.Body, guards)
		case *ast.RangeStmt:
			walk(x.Body, append(append([]string{}, guards...), "range "+c01Expr(x.X)))
		case *ast.ReturnStmt:
			if len(x.Results) == 0 {
				return
			}
			last := x.Results[len(x.Results)-1]
			if id, ok := last.(*ast.Ident); ok && id.Name == "nil" {
				return
			}
			out = append(out, strings.Join(guards, " && ")+" => "+c01Expr(last))
			for _, r := range x.Results {
				walkClosures(r, func(fl *ast.FuncLit) { walk(fl.Body, append(append([]string{}, guards...), "func")) })
			}
		case *ast.ExprStmt:
			walkClosures(x.X, func(fl *ast.FuncLit) { walk(fl.Body, append(append([]string{}, guards...), "func")) })
		case *ast.AssignStmt:
			for _, r := range x.Rhs {
				walkClosures(r, func(fl *ast.FuncLit) { walk(fl.Body, append(append([]string{}, guards...), "func")) })
			}
		case *ast.DeclStmt, *ast.IncDecStmt, *ast.BranchStmt, *ast.EmptyStmt, *ast.DeferStmt:
		case *ast.LabeledStmt:
			walk(x.Stmt, guards)
		default:
			out = append(out, fmt.Sprintf("UNMAPPED<%T>", n))
		}
	}
	walk(fn.Body, nil)
	return out
}

func walkClosures(e ast.Expr, f func(*ast.FuncLit)) {
	ast.Inspect(e, func(n ast.Node) bool {
		if fl, ok := n.(*ast.FuncLit); ok {
			f(fl)
			return false
		}
		return true
	})
}

func c01Stmt(s ast.Stmt) string {
	switch x := s.(type) {
	case *ast.AssignStmt:
		var l, r []string
		for _, e := range x.Lhs {
			l = append(l, c01Expr(e))
		}
		for _, e := range x.Rhs {
			r = append(r, c01Expr(e))
		}
		return strings.Join(l, ",") + " " + x.Tok.String() + " " + strings.Join(r, ",")
	}
	return fmt.Sprintf("<%T>", s)
}

// c01Expr renders an expression compactly (arguments kept, closures elided).
func c01Expr(e ast.Expr) string {
	switch x := e.(type) {
	case *ast.CallExpr:
		var a []string
		for _, arg := range x.Args {
			a = append(a, c01Expr(arg))
		}
		return c01Expr(x.Fun) + "(" + strings.Join(a, ",") + ")"
	case *ast.FuncLit:
		return "func"
	case *ast.BinaryExpr:
		return c01Expr(x.X) + " " + x.Op.String() + " " + c01Expr(x.Y)
	case *ast.UnaryExpr:
		return x.Op.String() + c01Expr(x.X)
	case *ast.ParenExpr:
		return "(" + c01Expr(x.X) + ")"
	case *ast.SelectorExpr:
		return c01Expr(x.X) + "." + x.Sel.Name
	case *ast.IndexExpr:
		return c01Expr(x.X) + "[" + c01Expr(x.Index) + "]"
	case *ast.StarExpr:
		return "*" + c01Expr(x.X)
	case *ast.CompositeLit:
		return c01Expr(x.Type) + "{}"
	case *ast.Ident:
		return x.Name
	case *ast.BasicLit:
		return x.Value
	case nil:
		return ""
	}
	return exprString(e)
}

// c01Const evaluates `name = <int> * time.<Unit>` or a string/int literal constant in a file.
func c01Const(f *ast.File, name string) (string, bool) {
	for _, d := range f.Decls {
		gd, ok := d.(*ast.GenDecl)
		if !ok || (gd.Tok != token.CONST && gd.Tok != token.VAR) {
			continue
		}
		for _, s := range gd.Specs {
			vs := s.(*ast.ValueSpec)
			for i, n := range vs.Names {
				if n.Name == name && i < len(vs.Values) {
					return c01Expr(vs.Values[i]), true
				}
			}
		}
	}
	return "", false
}

func c01DurationMs(expr string) string {
	// "5 * time.Second" -> 5000 ; anything else does not elaborate
	parts := strings.Split(expr, " * ")
	if len(parts) == 2 {
		if n, err := strconv.Atoi(parts[0]); err == nil {
			switch parts[1] {
			case "time.Second":
				return strconv.Itoa(n * 1000)
			case "time.Millisecond":
				return strconv.Itoa(n)
			case "time.Minute":
				return strconv.Itoa(n * 60000)
			}
		}
	}
	return ".unknown_duration_" + strings.Map(func(r rune) rune {
		if r == ' ' || r == '*' || r == '.' {
			return '_'
		}
		return r
	}, expr)
}

func extractC01() *lean {
	l := newLean("C01")
	_, ver := parseFile("vcr/verifier/verifier.go")
	_, sig := parseFile("vcr/verifier/signature_verifier.go")
	_, jwx := parseFile("crypto/jwx.go")
	_, res := parseFile("vcr/credential/resolver.go")
	_, val := parseFile("vcr/credential/validator.go")
	_, util := parseFile("vcr/credential/util.go")
	_, ldp := parseFile("vcr/signature/proof/jsonld.go")
	_, iss := parseFile("vcr/issuer/issuer.go")
	_, wal := parseFile("vcr/holder/sql_wallet.go")

	method := func(f *ast.File, name string) *ast.FuncDecl { return funcDecl(f, name) }
	seq := func(leanName string, f *ast.File, fn string) {
		r := c01Returns(method(f, fn))
		l.def(leanName, "List String", leanStrList(r), r)
	}
	seq("verifyReturns", ver, "Verify")
	seq("doVerifyVPReturns", ver, "doVerifyVP")
	seq("verifySignatureReturns", sig, "VerifySignature")
	seq("verifyVPSignatureReturns", sig, "VerifyVPSignature")
	seq("jsonldProofReturns", sig, "jsonldProof")
	seq("jwtSignatureReturns", sig, "jwtSignature")
	seq("resolveSigningKeyReturns", sig, "resolveSigningKey")
	seq("parseJWTReturns", jwx, "ParseJWT")
	seq("ldProofVerifyReturns", ldp, "Verify")
	seq("proofValidAtReturns", ldp, "ValidAt")
	seq("presenterIsCredentialSubjectReturns", util, "PresenterIsCredentialSubject")
	seq("resolveSubjectDIDReturns", util, "ResolveSubjectDID")
	seq("presentationSignerReturns", res, "PresentationSigner")
	seq("findValidatorReturns", res, "FindValidator")
	seq("issueReturns", iss, "Issue")
	seq("walletListReturns", wal, "List")

	// validators: the returns of each Validate method, keyed by receiver type
	for _, d := range val.Decls {
		fd, ok := d.(*ast.FuncDecl)
		if !ok || fd.Name.Name != "Validate" || fd.Recv == nil || len(fd.Recv.List) == 0 {
			continue
		}
		recv := c01Expr(fd.Recv.List[0].Type)
		r := c01Returns(fd)
		l.def("validate_"+recv, "List String", leanStrList(r), r)
	}
	seq("validateNutsCredentialIDReturns", val, "validateNutsCredentialID")
	seq("validateCredentialStatusReturns", val, "validateCredentialStatus")

	// deepening round: the subject validators' helpers and the util.go functions now inside the model (NutsModel/C01/Subject.lean)
	seq("validateResourcesReturns", val, "validateResources")
	seq("validOperationReturns", val, "validOperation")
	seq("parseLDProofReturns", res, "ParseLDProof")
	// validOperationTypes(): the literal the function returns — a construct that is not a composite literal of string literals gives
	// Lean that does not elaborate
	{
		ops := ".unknown_validOperationTypes"
		var opsJ []string
		if fd := funcDecl(val, "validOperationTypes"); fd != nil && fd.Body != nil && len(fd.Body.List) == 1 {
			if rs, ok := fd.Body.List[0].(*ast.ReturnStmt); ok && len(rs.Results) == 1 {
				if cl, ok := rs.Results[0].(*ast.CompositeLit); ok {
					good := true
					for _, e := range cl.Elts {
						bl, ok := e.(*ast.BasicLit)
						if !ok || bl.Kind != token.STRING {
							good = false
							break
						}
						s, err := strconv.Unquote(bl.Value)
						if err != nil {
							good = false
							break
						}
						opsJ = append(opsJ, s)
					}
					if good {
						ops = leanStrList(opsJ)
					}
				}
			}
		}
		l.def("validOperationTypes", "List String", ops, opsJ)
	}
	// the statements of the subject validators BETWEEN the context check and the default validator, in source order (the order of
	// the guards, the ignored Unmarshal error, the length check)
	for _, d := range val.Decls {
		fd, ok := d.(*ast.FuncDecl)
		if !ok || fd.Name.Name != "Validate" || fd.Recv == nil || len(fd.Recv.List) == 0 || fd.Body == nil {
			continue
		}
		recv := c01Expr(fd.Recv.List[0].Type)
		var guards []string
		for _, st := range fd.Body.List {
			if is, ok := st.(*ast.IfStmt); ok {
				g := c01Expr(is.Cond)
				if is.Init != nil {
					g = c01Stmt(is.Init) + "; " + g
				}
				guards = append(guards, g)
			}
		}
		l.def("guards_"+recv, "List String", leanStrList(guards), guards)
	}

	// doVerifyVP: is the per-credential flag `checkSignature` (re)declared INSIDE the loop over the presentation's credentials?
	// (declared outside, the exemption of a proof-less self-attested credential would leak to the credentials after it)
	perCred := false
	if fd := funcDecl(ver, "doVerifyVP"); fd != nil {
		ast.Inspect(fd, func(n ast.Node) bool {
			rs, ok := n.(*ast.RangeStmt)
			if !ok || !strings.Contains(c01Expr(rs.X), "VerifiableCredential") {
				return true
			}
			for _, st := range rs.Body.List {
				if as, ok := st.(*ast.AssignStmt); ok && as.Tok == token.DEFINE && len(as.Lhs) == 1 && c01Expr(as.Lhs[0]) == "checkSignature" && c01Expr(as.Rhs[0]) == "true" {
					perCred = true
				}
				if ds, ok := st.(*ast.DeclStmt); ok {
					if gd, ok := ds.Decl.(*ast.GenDecl); ok {
						for _, sp := range gd.Specs {
							if vs, ok := sp.(*ast.ValueSpec); ok && len(vs.Names) == 1 && vs.Names[0].Name == "checkSignature" {
								perCred = true
							}
						}
					}
				}
			}
			return true
		})
	}
	l.def("checkSignatureFlagIsPerCredential", "Bool", map[bool]string{true: "true", false: "false"}[perCred], perCred)

	// ---- wiring: WHERE the verifier is called from and with which flags (allowUntrusted, checkSignature / verifyVCs, time)
	var sites []string
	for _, rel := range []string{"vcr/api/vcr/v2/api.go", "vcr/holder/sql_wallet.go", "vcr/store.go", "vcr/search.go", "vcr/vcr.go", "vcr/ambassador.go",
		"vcr/revocation/statuslist2021_verifier.go", "auth/api/iam/openid4vp.go", "auth/api/iam/openid4vci.go", "auth/api/iam/s2s_vptoken.go",
		"auth/services/oauth/authz_server.go", "auth/services/selfsigned/validator.go", "discovery/client.go", "discovery/module.go"} {
		_, f := parseFile(rel)
		for _, d := range f.Decls {
			fd, ok := d.(*ast.FuncDecl)
			if !ok || fd.Body == nil {
				continue
			}
			ast.Inspect(fd.Body, func(n ast.Node) bool {
				ce, ok := n.(*ast.CallExpr)
				if !ok {
					return true
				}
				sel, ok := ce.Fun.(*ast.SelectorExpr)
				if !ok {
					return true
				}
				recv := c01Expr(sel.X)
				isVerifier := strings.Contains(strings.ToLower(recv), "verifier") || recv == "cs" || strings.HasSuffix(recv, "Verifier()")
				switch sel.Sel.Name {
				case "Verify", "VerifyVP", "VerifySignature", "RegisterRevocation", "NewVerifier":
					if isVerifier || sel.Sel.Name == "NewVerifier" {
						sites = append(sites, rel+":"+fd.Name.Name+": "+c01Expr(ce))
					}
				}
				return true
			})
		}
	}
	l.def("verifierCallSites", "List String", leanStrList(sites), sites)
	_, apiF := parseFile("vcr/api/vcr/v2/api.go")
	seq("apiVerifyVCReturns", apiF, "VerifyVC")
	seq("apiVerifyVPReturns", apiF, "VerifyVP")
	_, storeF := parseFile("vcr/store.go")
	seq("storeCredentialReturns", storeF, "StoreCredential")
	seq("walletBuildPresentationReturns", wal, "BuildPresentation")
	_, slv := parseFile("vcr/revocation/statuslist2021_verifier.go")
	seq("statusListVerifyReturns", slv, "Verify")
	seq("isRevokedReturns", ver, "IsRevoked")
	// wave 8: the error branches of the real revocation store's read (a read fault must stay an error, only "no result" is ErrNotFound)
	_, leiaF := parseFile("vcr/verifier/leia_store.go")
	seq("getRevocationsReturns", leiaF, "GetRevocations")
	seq("registerRevocationReturns", ver, "RegisterRevocation")
	// statements of the wallet's List loop / API flag rules, as text
	stmts := func(f *ast.File, fn string) []string {
		var r []string
		if fd := funcDecl(f, fn); fd != nil {
			ast.Inspect(fd.Body, func(n ast.Node) bool {
				switch x := n.(type) {
				case *ast.IfStmt:
					r = append(r, "if "+c01Expr(x.Cond))
				case *ast.AssignStmt:
					r = append(r, c01Stmt(x))
				}
				return true
			})
		}
		return r
	}
	l.def("walletListStmts", "List String", leanStrList(stmts(wal, "List")), stmts(wal, "List"))
	l.def("apiVerifyVCStmts", "List String", leanStrList(stmts(apiF, "VerifyVC")), stmts(apiF, "VerifyVC"))
	l.def("apiVerifyVPStmts", "List String", leanStrList(stmts(apiF, "VerifyVP")), stmts(apiF, "VerifyVP"))

	// deepening round: full control flow (ifs, assignments, case labels, returns, continue/labels) of the util.go functions the model mirrors
	flow := func(f *ast.File, fn string) []string {
		var r []string
		if fd := funcDecl(f, fn); fd != nil {
			ast.Inspect(fd.Body, func(n ast.Node) bool {
				switch x := n.(type) {
				case *ast.IfStmt:
					g := c01Expr(x.Cond)
					if x.Init != nil {
						g = c01Stmt(x.Init) + "; " + g
					}
					r = append(r, "if "+g)
				case *ast.AssignStmt:
					r = append(r, c01Stmt(x))
				case *ast.CaseClause:
					var cs []string
					for _, e := range x.List {
						cs = append(cs, c01Expr(e))
					}
					r = append(r, "case "+strings.Join(cs, ","))
				case *ast.ReturnStmt:
					var rs []string
					for _, e := range x.Results {
						rs = append(rs, c01Expr(e))
					}
					r = append(r, "return "+strings.Join(rs, ","))
				case *ast.BranchStmt:
					lb := ""
					if x.Label != nil {
						lb = " " + x.Label.Name
					}
					r = append(r, x.Tok.String()+lb)
				case *ast.RangeStmt:
					r = append(r, "range "+c01Expr(x.X))
				}
				return true
			})
		}
		return r
	}
	for _, fn := range []string{"PresentationIssuanceDate", "PresentationExpirationDate", "FilterOnDIDMethod", "AutoCorrectSelfAttestedCredential"} {
		l.def("flow_"+fn, "List String", leanStrList(flow(util, fn)), flow(util, fn))
	}

	// deepening round 3: full control flow of the revocation lookup (store read -> IsRevoked / GetRevocation) and of the presenter = subject rule
	for _, fn := range []string{"IsRevoked", "GetRevocation"} {
		l.def("flow_"+fn, "List String", leanStrList(flow(ver, fn)), flow(ver, fn))
	}
	l.def("flow_GetRevocations", "List String", leanStrList(flow(leiaF, "GetRevocations")), flow(leiaF, "GetRevocations"))
	for _, fn := range []string{"PresenterIsCredentialSubject", "ResolveSubjectDID"} {
		l.def("flow_"+fn, "List String", leanStrList(flow(util, fn)), flow(util, fn))
	}

	// deepening round 3: the S2S token endpoint's consumers of the presentation dates and of the presenter = subject rule
	_, iamVal := parseFile("auth/api/iam/validation.go")
	_, iamS2S := parseFile("auth/api/iam/s2s_vptoken.go")
	l.def("flow_validatePresentationSigner", "List String", leanStrList(flow(iamVal, "validatePresentationSigner")), flow(iamVal, "validatePresentationSigner"))
	l.def("flow_validateS2SPresentationMaxValidity", "List String", leanStrList(flow(iamS2S, "validateS2SPresentationMaxValidity")), flow(iamS2S, "validateS2SPresentationMaxValidity"))
	if v, ok := c01Const(iamS2S, "s2sMaxPresentationValidity"); ok {
		l.def("s2sMaxValidityMs", "Int", c01DurationMs(v), v)
	} else {
		l.def("s2sMaxValidityMs", "Int", ".unknown_s2sMaxPresentationValidity_missing", nil)
	}
	// the FIRST loop over the envelope's presentations in handleS2SAccessTokenRequest (order of the per-presentation checks, threading of
	// credentialSubjectID) and every later call that consumes the presentations (VerifyVP with its flags)
	var s2sLoop, s2sVerify []string
	if fd := funcDecl(iamS2S, "handleS2SAccessTokenRequest"); fd != nil {
		first := true
		ast.Inspect(fd.Body, func(n ast.Node) bool {
			if rs, ok := n.(*ast.RangeStmt); ok && c01Expr(rs.X) == "pexEnvelope.Presentations" && first {
				first = false
				ast.Inspect(rs.Body, func(m ast.Node) bool {
					switch x := m.(type) {
					case *ast.IfStmt:
						g := c01Expr(x.Cond)
						if x.Init != nil {
							g = c01Stmt(x.Init) + "; " + g
						}
						s2sLoop = append(s2sLoop, "if "+g)
					case *ast.AssignStmt:
						s2sLoop = append(s2sLoop, c01Stmt(x))
					case *ast.ReturnStmt:
						var rs []string
						for _, e := range x.Results {
							rs = append(rs, c01Expr(e))
						}
						s2sLoop = append(s2sLoop, "return "+strings.Join(rs, ","))
					}
					return true
				})
				return false
			}
			if ce, ok := n.(*ast.CallExpr); ok {
				if sel, ok := ce.Fun.(*ast.SelectorExpr); ok && sel.Sel.Name == "VerifyVP" {
					s2sVerify = append(s2sVerify, c01Expr(ce))
				}
			}
			return true
		})
		for _, st := range fd.Body.List {
			if ds, ok := st.(*ast.DeclStmt); ok {
				if gd, ok := ds.Decl.(*ast.GenDecl); ok {
					for _, sp := range gd.Specs {
						if vs, ok := sp.(*ast.ValueSpec); ok && len(vs.Names) == 1 && vs.Names[0].Name == "credentialSubjectID" {
							s2sLoop = append([]string{"var credentialSubjectID " + c01Expr(vs.Type) + fmt.Sprintf(" values=%d", len(vs.Values))}, s2sLoop...)
						}
					}
				}
			}
		}
	}
	l.def("s2sFirstLoop", "List String", leanStrList(s2sLoop), s2sLoop)
	l.def("s2sVerifyVPCalls", "List String", leanStrList(s2sVerify), s2sVerify)

	// deepening round 3: RegisterRevocation — ValidateRevocation's control flow and where subjectIssuer / vmIssuer / the resolve time come from
	_, revF := parseFile("vcr/credential/revocation.go")
	l.def("flow_ValidateRevocation", "List String", leanStrList(flow(revF, "ValidateRevocation")), flow(revF, "ValidateRevocation"))
	var splits []string
	if fd := funcDecl(ver, "RegisterRevocation"); fd != nil {
		want := map[string]bool{"subjectIssuer": true, "vmIssuer": true, "subject": true, "vm": true, "metadata": true}
		got := map[string]string{}
		ast.Inspect(fd.Body, func(n ast.Node) bool {
			if as, ok := n.(*ast.AssignStmt); ok && len(as.Lhs) == 1 {
				if id, ok := as.Lhs[0].(*ast.Ident); ok && want[id.Name] {
					got[id.Name] += c01Stmt(as)
					// composite literals are printed without their fields by c01Expr: add them (the resolve time is the point here)
					if ue, ok := as.Rhs[0].(*ast.UnaryExpr); ok {
						if cl, ok := ue.X.(*ast.CompositeLit); ok {
							for _, e := range cl.Elts {
								if kv, ok := e.(*ast.KeyValueExpr); ok {
									got[id.Name] += " " + c01Expr(kv.Key) + ": " + c01Expr(kv.Value)
								}
							}
						}
					}
				}
			}
			return true
		})
		for _, k := range []string{"subjectIssuer", "vmIssuer", "subject", "vm", "metadata"} {
			splits = append(splits, got[k])
		}
	}
	l.def("registerRevocationSplits", "List String", leanStrList(splits), splits)

	// StatusList2021.update: how a refreshed list replaces the stored copy (every column, the expanded bitstring included)
	var onConflict []string
	if fd := funcDecl(slv, "update"); fd != nil {
		ast.Inspect(fd, func(n ast.Node) bool {
			cl, ok := n.(*ast.CompositeLit)
			if !ok || c01Expr(cl.Type) != "clause.OnConflict" {
				return true
			}
			for _, e := range cl.Elts {
				if kv, ok := e.(*ast.KeyValueExpr); ok {
					onConflict = append(onConflict, c01Expr(kv.Key)+":"+c01Expr(kv.Value))
				}
			}
			return true
		})
	}
	l.def("statusListUpdateOnConflict", "List String", leanStrList(onConflict), onConflict)
	seq("statusListStatusListReturns", slv, "statusList")

	// the status list ISSUER: every path that rebuilds a list (Credential = renewal, Entry = new page, Revoke) loads the
	// issuer record WITH its revocations
	_, sli := parseFile("vcr/revocation/statuslist2021_issuer.go")
	var preloads []string
	for _, fn := range []string{"Credential", "Entry", "Revoke"} {
		if fd := funcDecl(sli, fn); fd != nil {
			ast.Inspect(fd, func(n ast.Node) bool {
				if ce, ok := n.(*ast.CallExpr); ok {
					if sel, ok := ce.Fun.(*ast.SelectorExpr); ok && sel.Sel.Name == "Preload" && len(ce.Args) > 0 {
						preloads = append(preloads, fn+":Preload("+c01Expr(ce.Args[0])+")")
					}
				}
				return true
			})
		}
	}
	l.def("statusListIssuerPreloads", "List String", leanStrList(preloads), preloads)
	// key.go ResolveKeyByID: the collection(s) it iterates, and which document member each relationship type selects
	var ranges, rels []string
	_, keyF := parseFile("vdr/resolver/key.go")
	if fd := funcDecl(keyF, "ResolveKeyByID"); fd != nil {
		ast.Inspect(fd, func(n ast.Node) bool {
			if rs, ok := n.(*ast.RangeStmt); ok {
				ranges = append(ranges, c01Expr(rs.X))
			}
			return true
		})
	}
	if fd := funcDecl(keyF, "resolveRelationships"); fd != nil {
		ast.Inspect(fd, func(n ast.Node) bool {
			if cc, ok := n.(*ast.CaseClause); ok && len(cc.List) > 0 {
				for _, st := range cc.Body {
					if rt, ok := st.(*ast.ReturnStmt); ok && len(rt.Results) > 0 {
						rels = append(rels, c01Expr(cc.List[0])+"=>"+c01Expr(rt.Results[0]))
					}
				}
			}
			return true
		})
	}
	l.def("resolveKeyByIDRanges", "List String", leanStrList(ranges), ranges)
	l.def("relationshipCollections", "List String", leanStrList(rels), rels)

	// jsonld.Configure: which argument decides whether contexts that are not on the allow list may be fetched
	_, jl := parseFile("jsonld/jsonld.go")
	var loaderArgs []string
	if fd := funcDecl(jl, "Configure"); fd != nil {
		ast.Inspect(fd, func(n ast.Node) bool {
			if ce, ok := n.(*ast.CallExpr); ok && c01Expr(ce.Fun) == "NewContextLoader" {
				for _, a := range ce.Args {
					loaderArgs = append(loaderArgs, c01Expr(a))
				}
			}
			return true
		})
	}
	l.def("contextLoaderArgs", "List String", leanStrList(loaderArgs), loaderArgs)
	_, lu := parseFile("jsonld/ldutils.go")
	var filterGuard []string
	if fd := funcDecl(lu, "NewContextLoader"); fd != nil {
		ast.Inspect(fd, func(n ast.Node) bool {
			if is, ok := n.(*ast.IfStmt); ok {
				filterGuard = append(filterGuard, "if "+c01Expr(is.Cond))
			}
			return true
		})
	}
	l.def("contextLoaderGuards", "List String", leanStrList(filterGuard), filterGuard)

	// the verifier keeps no state of its own between calls besides its collaborators: fields of verifier / signatureVerifier
	var fields []string
	for _, pf := range []struct {
		f    *ast.File
		name string
	}{{ver, "verifier"}, {sig, "signatureVerifier"}} {
		ast.Inspect(pf.f, func(n ast.Node) bool {
			ts, ok := n.(*ast.TypeSpec)
			if !ok || ts.Name.Name != pf.name {
				return true
			}
			if st, ok := ts.Type.(*ast.StructType); ok {
				for _, fl := range st.Fields.List {
					if len(fl.Names) == 0 {
						fields = append(fields, pf.name+".<embedded> "+c01Expr(fl.Type))
					}
					for _, nm := range fl.Names {
						fields = append(fields, pf.name+"."+nm.Name+" "+c01Expr(fl.Type))
					}
				}
			}
			return true
		})
	}
	l.def("verifierFields", "List String", leanStrList(fields), fields)

	// vcr/store.go StoreCredential: is the signature check a TOP-LEVEL statement of the function (no branch in front of it)?
	uncond := false
	if fd := funcDecl(storeF, "StoreCredential"); fd != nil {
		for _, st := range fd.Body.List {
			if is, ok := st.(*ast.IfStmt); ok && is.Init != nil && strings.Contains(c01Stmt(is.Init), "c.verifier.VerifySignature(credential,validAt)") {
				uncond = true
			}
		}
	}
	l.def("storeCredentialVerifiesSignatureUnconditionally", "Bool", map[bool]string{true: "true", false: "false"}[uncond], uncond)

	// which verification relationship every key lookup of the verifier asks for (a constant, never a field of the document), and
	// what NewVerifier wires the status list verifier's VerifySignature to
	var lookups []string
	for _, pf := range []*ast.File{sig, ver} {
		for _, d := range pf.Decls {
			fd, ok := d.(*ast.FuncDecl)
			if !ok || fd.Body == nil {
				continue
			}
			ast.Inspect(fd.Body, func(n ast.Node) bool {
				if ce, ok := n.(*ast.CallExpr); ok {
					if sel, ok := ce.Fun.(*ast.SelectorExpr); ok && sel.Sel.Name == "ResolveKeyByID" && len(ce.Args) == 3 {
						lookups = append(lookups, fd.Name.Name+":"+c01Expr(ce.Args[2]))
					}
				}
				return true
			})
		}
	}
	l.def("keyLookupRelations", "List String", leanStrList(lookups), lookups)
	var wiring []string
	if fd := funcDecl(ver, "NewVerifier"); fd != nil {
		ast.Inspect(fd, func(n ast.Node) bool {
			if as, ok := n.(*ast.AssignStmt); ok && len(as.Lhs) == 1 && strings.Contains(c01Expr(as.Lhs[0]), "credentialStatus.") {
				wiring = append(wiring, c01Stmt(as))
			}
			return true
		})
	}
	l.def("newVerifierStatusListWiring", "List String", leanStrList(wiring), wiring)

	// trust.Config: the return sequences, and whether RemoveTrust drops EVERY entry equal to the issuer
	// (a loop over the type's list that keeps the entries `!= issuer`), not just one occurrence
	_, tr := parseFile("vcr/trust/trust.go")
	seq("removeTrustReturns", tr, "RemoveTrust")
	seq("addTrustReturns", tr, "AddTrust")
	seq("isTrustedReturns", tr, "IsTrusted")
	dropsAll := false
	if fd := funcDecl(tr, "RemoveTrust"); fd != nil {
		ast.Inspect(fd, func(n ast.Node) bool {
			rs, ok := n.(*ast.RangeStmt)
			if !ok || !strings.Contains(c01Expr(rs.X), "issuersPerType") {
				return true
			}
			ast.Inspect(rs.Body, func(m ast.Node) bool {
				if is, ok := m.(*ast.IfStmt); ok && strings.Contains(c01Expr(is.Cond), "!= issuer.String()") {
					dropsAll = true
				}
				return true
			})
			return true
		})
	}
	l.def("removeTrustDropsEveryOccurrence", "Bool", map[bool]string{true: "true", false: "false"}[dropsAll], dropsAll)

	if v, ok := c01Const(ver, "maxSkew"); ok {
		l.def("maxSkewMs", "Int", c01DurationMs(v), v)
	} else {
		l.def("maxSkewMs", "Int", ".unknown_maxSkew_missing", nil)
	}

	// supported JWT signature algorithms (crypto/jwx/algorithm*.go)
	var algs []string
	for _, rel := range []string{"crypto/jwx/algorithm.go"} { // jwx_es256k.go is behind a build tag that the default build does not set
		_, f := parseFile(rel)
		ast.Inspect(f, func(n ast.Node) bool {
			switch x := n.(type) {
			case *ast.ValueSpec:
				for i, nm := range x.Names {
					if nm.Name == "SupportedAlgorithms" && i < len(x.Values) {
						if cl, ok := x.Values[i].(*ast.CompositeLit); ok {
							for _, e := range cl.Elts {
								algs = append(algs, strings.TrimPrefix(c01Expr(e), "jwa."))
							}
						}
					}
				}
			case *ast.CallExpr:
				if c01Expr(x.Fun) == "AddSupportedAlgorithm" && len(x.Args) == 1 {
					algs = append(algs, strings.TrimPrefix(c01Expr(x.Args[0]), "jwa."))
				}
			}
			return true
		})
	}
	l.def("supportedAlgs", "List String", leanStrList(algs), algs)

	// the key relation used for credential/presentation signatures
	_, key := parseFile("vdr/resolver/key.go")
	if v, ok := c01Const(key, "NutsSigningKeyType"); ok {
		l.def("signingKeyRelation", "String", fmt.Sprintf("%q", v), v)
	}
	// string constants the model mirrors
	_, types := parseFile("vcr/credential/types.go")
	for _, n := range []string{"NutsOrganizationCredentialType", "NutsAuthorizationCredentialType", "NutsV1Context"} {
		if v, ok := c01Const(types, n); ok {
			l.def("c_"+n, "String", v, v)
		} else {
			l.def("c_"+n, "String", ".unknown_const_missing", nil)
		}
	}
	// deepening round: more hand-copied constants / tables of the model
	_, rtypes := parseFile("vcr/revocation/types.go")
	for _, d := range rtypes.Decls {
		if fd, ok := d.(*ast.FuncDecl); ok && fd.Name.Name == "Validate" && fd.Recv != nil && len(fd.Recv.List) == 1 && c01Expr(fd.Recv.List[0].Type) == "StatusList2021Entry" {
			r := c01Returns(fd)
			l.def("statusEntryValidateReturns", "List String", leanStrList(r), r)
		}
	}
	if v, ok := c01Const(rtypes, "StatusList2021EntryType"); ok {
		l.def("c_StatusList2021EntryType", "String", v, v)
	} else {
		l.def("c_StatusList2021EntryType", "String", ".unknown_const_missing", nil)
	}
	_, ldutils := parseFile("jsonld/ldutils.go")
	if v, ok := c01Const(ldutils, "W3cStatusList2021Context"); ok {
		l.def("c_W3cStatusList2021Context", "String", v, v)
	} else {
		l.def("c_W3cStatusList2021Context", "String", ".unknown_const_missing", nil)
	}
	if v, ok := c01Const(rtypes, "StatusList2021ContextURI"); ok {
		l.def("c_StatusList2021ContextURI_expr", "String", fmt.Sprintf("%q", v), v)
	}
	// crypto/jwx.AlgorithmFitsKey: the `switch curve` table (curve name => the one algorithm that fits) and its default
	{
		_, algF := parseFile("crypto/jwx/algorithm.go")
		var rows []string
		var rowsJ [][2]string
		def := ""
		if fd := funcDecl(algF, "AlgorithmFitsKey"); fd != nil {
			for _, st := range fd.Body.List {
				sw, ok := st.(*ast.SwitchStmt)
				if !ok || c01Expr(sw.Tag) != "curve" {
					continue
				}
				for _, cc := range sw.Body.List {
					cl := cc.(*ast.CaseClause)
					ret := ".unknown_case_body"
					if len(cl.Body) == 1 {
						if rs, ok := cl.Body[0].(*ast.ReturnStmt); ok && len(rs.Results) == 1 {
							ret = c01Expr(rs.Results[0])
						}
					}
					if cl.List == nil {
						def = ret
						continue
					}
					for _, e := range cl.List {
						bl, ok := e.(*ast.BasicLit)
						alg := ""
						if strings.HasPrefix(ret, "alg == jwa.") {
							alg = strings.TrimPrefix(ret, "alg == jwa.")
						}
						if !ok || alg == "" {
							rows = append(rows, ".unknown_curve_case")
							continue
						}
						cv, _ := strconv.Unquote(bl.Value)
						rows = append(rows, fmt.Sprintf("(%q, %q)", cv, alg))
						rowsJ = append(rowsJ, [2]string{cv, alg})
					}
				}
			}
		}
		l.def("curveAlgTable", "List (String × String)", "["+strings.Join(rows, ", ")+"]", rowsJ)
		l.def("curveAlgDefault", "String", fmt.Sprintf("%q", def), def)
	}
	return l
}
