package main

import (
	"go/ast"
	"strings"
)

// C15 deepening round 3: the source shape behind NutsModel/C15/Outbound.lean (outbound stream set-up). Dumb printing only.

// c15Flow prints the control skeleton of a block: every `if` with its condition, every return, `continue`, and those
// assignments / calls whose source mentions one of `keep`; log statements and everything else are dropped.
func c15Flow(b *ast.BlockStmt, keep []string, depth int, out *[]string) {
	if b == nil {
		return
	}
	ind := strings.Repeat(">", depth)
	interesting := func(s string) bool {
		if strings.Contains(s, "log.Logger()") {
			return false
		}
		for _, k := range keep {
			if strings.Contains(s, k) {
				return true
			}
		}
		return false
	}
	for _, st := range b.List {
		switch x := st.(type) {
		case *ast.IfStmt:
			hd := "if "
			if x.Init != nil {
				hd += c15Src(x.Init) + "; "
			}
			*out = append(*out, ind+hd+c15Src(x.Cond))
			c15Flow(x.Body, keep, depth+1, out)
			if eb, ok := x.Else.(*ast.BlockStmt); ok {
				*out = append(*out, ind+"else")
				c15Flow(eb, keep, depth+1, out)
			} else if x.Else != nil {
				*out = append(*out, ind+"else-if "+c15Src(x.Else))
			}
		case *ast.ReturnStmt:
			*out = append(*out, ind+c15Src(x))
		case *ast.BranchStmt:
			*out = append(*out, ind+x.Tok.String())
		case *ast.RangeStmt:
			*out = append(*out, ind+"range "+c15Src(x.X))
			c15Flow(x.Body, keep, depth+1, out)
		case *ast.ForStmt:
			*out = append(*out, ind+"for")
			c15Flow(x.Body, keep, depth+1, out)
		case *ast.DeferStmt:
			if fl, ok := x.Call.Fun.(*ast.FuncLit); ok {
				*out = append(*out, ind+"defer")
				c15Flow(fl.Body, keep, depth+1, out)
			} else if s := c15Src(x); interesting(s) {
				*out = append(*out, ind+s)
			}
		case *ast.GoStmt:
			// the watcher goroutines are not part of the set-up decision
		default:
			if s := c15Src(st); interesting(s) {
				*out = append(*out, ind+s)
			}
		}
	}
}

func c15Outbound(l *lean) {
	_, cm := parseFile("network/transport/grpc/connection_manager.go")
	_, cn := parseFile("network/transport/grpc/connection.go")

	var one, loop, conn, vid, disc, create []string
	if fd := funcDecl(cm, "openOutboundStream"); fd != nil {
		c15Flow(fd.Body, []string{"CreateClientStream", "clientStream.Header()", "readMetadata", "extractCertificate", "connection.Peer()", "s.authenticate", "connection.setPeer", "registerStream", "verifyOrSetPeerID"}, 0, &one)
	}
	if fd := funcDecl(cm, "openOutboundStreams"); fd != nil {
		c15Flow(fd.Body, []string{"s.openOutboundStream", "protocolNum", "waitUntilDisconnected", "constructMetadata"}, 0, &loop)
	}
	if fd := funcDecl(cm, "connect"); fd != nil {
		c15Flow(fd.Body, []string{"getOrRegister", "connection.disconnect", "s.connections.remove", "s.openOutboundStreams", "s.dialer"}, 0, &conn)
	}
	if fd := funcDecl(cn, "verifyOrSetPeerID"); fd != nil {
		c15Flow(fd.Body, []string{"currentPeer", "setPeer"}, 0, &vid)
	}
	if fd := funcDecl(cn, "disconnect"); fd != nil {
		c15Flow(fd.Body, []string{"peer", "mc.streams"}, 0, &disc)
	}
	if fd := funcDecl(cn, "createConnection"); fd != nil {
		c15Flow(fd.Body, []string{"setPeer", "streams"}, 0, &create)
	}
	l.def("openOutboundStreamFlow", "List String", leanStrList(one), one)
	l.def("openOutboundStreamsFlow", "List String", leanStrList(loop), loop)
	l.def("connectFlow", "List String", leanStrList(conn), conn)
	l.def("verifyOrSetPeerIDFlow", "List String", leanStrList(vid), vid)
	l.def("disconnectFlow", "List String", leanStrList(disc), disc)
	l.def("createConnectionFlow", "List String", leanStrList(create), create)
}
