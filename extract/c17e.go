package main

// C17 deepening round 3: caseVariantMember's reflect loop as Lean data — the separator of strings.Cut, the struct-tag key, the names the loop
// skips (`name == "" || name == "-"`), the comparison of the inner loop and the final return. The model's tagName / structLoop take the
// separator and the skip list from here.

import (
	"go/ast"
	"go/token"
	"strconv"
)

func c17StrLit(e ast.Expr) (string, bool) {
	if bl, ok := e.(*ast.BasicLit); ok && bl.Kind == token.STRING {
		if s, err := strconv.Unquote(bl.Value); err == nil {
			return s, true
		}
	}
	return "", false
}

// `x == "a" || x == "b" || …` -> [a, b, …]; anything else is reported as "?<source>"
func c17EqChain(e ast.Expr, ident string, out *[]string) {
	if be, ok := e.(*ast.BinaryExpr); ok {
		if be.Op == token.LOR {
			c17EqChain(be.X, ident, out)
			c17EqChain(be.Y, ident, out)
			return
		}
		if be.Op == token.EQL && exprString(be.X) == ident {
			if s, ok := c17StrLit(be.Y); ok {
				*out = append(*out, s)
				return
			}
		}
	}
	*out = append(*out, "?"+c17Src(e))
}

func extractC17e(l *lean) {
	_, svF := parseFile("vcr/verifier/signature_verifier.go")
	fd := funcDecl(svF, "caseVariantMember")
	sep, tagKey, cmp, final := "?missing", "?missing", "?missing", "?missing"
	skip := []string{}
	skipAction := "?missing"
	if fd != nil && fd.Body != nil {
		ast.Inspect(fd, func(n ast.Node) bool {
			switch x := n.(type) {
			case *ast.CallExpr:
				if exprString(x.Fun) == "strings.Cut" && len(x.Args) == 2 {
					if s, ok := c17StrLit(x.Args[1]); ok {
						sep = s
					} else {
						sep = "?" + c17Src(x.Args[1])
					}
					if inner, ok := x.Args[0].(*ast.CallExpr); ok && len(inner.Args) == 1 {
						if s, ok := c17StrLit(inner.Args[0]); ok {
							tagKey = c17Src(inner.Fun) + ":" + s
						}
					}
				}
			case *ast.IfStmt:
				if len(x.Body.List) == 1 {
					switch b := x.Body.List[0].(type) {
					case *ast.BranchStmt:
						skip = skip[:0]
						c17EqChain(x.Cond, "name", &skip)
						skipAction = b.Tok.String()
					case *ast.ReturnStmt:
						if c17Src(b) == "return member" {
							cmp = c17Src(x.Cond)
						}
					}
				}
			}
			return true
		})
		if n := len(fd.Body.List); n > 0 {
			final = c17Src(fd.Body.List[n-1])
		}
	}
	l.def("caseVariantCutSep", "String", strconv.Quote(sep), sep)
	l.def("caseVariantTagKey", "String", strconv.Quote(tagKey), tagKey)
	l.def("caseVariantSkipNames", "List String", leanStrList(skip), skip)
	l.def("caseVariantSkipAction", "String", strconv.Quote(skipAction), skipAction)
	l.def("caseVariantCompare", "String", strconv.Quote(cmp), cmp)
	l.def("caseVariantFinal", "String", strconv.Quote(final), final)
}
