package main

import (
	"encoding/json"
	"fmt"
	"go/ast"
	"go/token"
	"os"
	"path/filepath"
	"sort"
	"strings"
)

func init() { extractors["C12"] = extractC12 }

// conjuncts of a condition joined by &&
func c12Conjuncts(e ast.Expr) []ast.Expr {
	if p, ok := e.(*ast.ParenExpr); ok {
		return c12Conjuncts(p.X)
	}
	if b, ok := e.(*ast.BinaryExpr); ok && b.Op == token.LAND {
		return append(c12Conjuncts(b.X), c12Conjuncts(b.Y)...)
	}
	return []ast.Expr{e}
}

// "<x> != nil" -> x
func c12NotNil(e ast.Expr) string {
	if b, ok := e.(*ast.BinaryExpr); ok && b.Op == token.NEQ && exprString(b.Y) == "nil" {
		return exprString(b.X)
	}
	return ""
}

// c12Derefs lists every `*recv.Field` in fn with whether a `recv.Field != nil` test dominates it
// (enclosing if-condition conjunct, or an earlier conjunct of the same && chain).
func c12Derefs(fn *ast.FuncDecl, recv string) map[string][]bool {
	res := map[string][]bool{}
	var walk func(n ast.Node, known map[string]bool)
	with := func(known map[string]bool, add ...string) map[string]bool {
		m := map[string]bool{}
		for k := range known {
			m[k] = true
		}
		for _, a := range add {
			if a != "" {
				m[a] = true
			}
		}
		return m
	}
	var walkExpr func(e ast.Expr, known map[string]bool)
	walkExpr = func(e ast.Expr, known map[string]bool) {
		if e == nil {
			return
		}
		if b, ok := e.(*ast.BinaryExpr); ok && b.Op == token.LAND {
			k := known
			for _, c := range c12Conjuncts(e) {
				walkExpr(c, k)
				k = with(k, c12NotNil(c))
			}
			return
		}
		ast.Inspect(e, func(m ast.Node) bool {
			if s, ok := m.(*ast.StarExpr); ok {
				x := exprString(s.X)
				if strings.HasPrefix(x, recv+".") {
					res[strings.TrimPrefix(x, recv+".")] = append(res[strings.TrimPrefix(x, recv+".")], known[x])
				}
			}
			if b, ok := m.(*ast.BinaryExpr); ok && b.Op == token.LAND && m != e {
				walkExpr(b, known)
				return false
			}
			if fl, ok := m.(*ast.FuncLit); ok {
				walk(fl.Body, known)
				return false
			}
			return true
		})
	}
	walk = func(n ast.Node, known map[string]bool) {
		switch x := n.(type) {
		case nil:
			return
		case *ast.BlockStmt:
			if x == nil {
				return
			}
			for _, s := range x.List {
				walk(s, known)
			}
		case *ast.IfStmt:
			walk(x.Init, known)
			walkExpr(x.Cond, known)
			var add []string
			for _, c := range c12Conjuncts(x.Cond) {
				add = append(add, c12NotNil(c))
			}
			walk(x.Body, with(known, add...))
			if x.Else != nil {
				walk(x.Else, known)
			}
		case *ast.ForStmt:
			walk(x.Init, known)
			walkExpr(x.Cond, known)
			walk(x.Post, known)
			walk(x.Body, known)
		case *ast.RangeStmt:
			walkExpr(x.X, known)
			walk(x.Body, known)
		case *ast.ExprStmt:
			walkExpr(x.X, known)
		case *ast.AssignStmt:
			for _, e := range x.Rhs {
				walkExpr(e, known)
			}
			for _, e := range x.Lhs {
				walkExpr(e, known)
			}
		case *ast.ReturnStmt:
			for _, e := range x.Results {
				walkExpr(e, known)
			}
		case *ast.IncDecStmt:
			walkExpr(x.X, known)
		case *ast.DeclStmt, *ast.BranchStmt, *ast.EmptyStmt:
		case *ast.SwitchStmt:
			walk(x.Init, known)
			walkExpr(x.Tag, known)
			walk(x.Body, known)
		case *ast.CaseClause:
			for _, e := range x.List {
				walkExpr(e, known)
			}
			for _, s := range x.Body {
				walk(s, known)
			}
		default:
			// a statement kind this walker does not know: record an unguarded pseudo-dereference so the obligation fails loudly
			res[fmt.Sprintf("UNKNOWN_STMT_%T", n)] = append(res[fmt.Sprintf("UNKNOWN_STMT_%T", n)], false)
		}
	}
	walk(fn.Body, map[string]bool{})
	return res
}

func extractC12() *lean {
	l := newLean("C12", "NutsModel.C12.PE")
	l.sb.WriteString("open Nuts.C12\n")

	// ---- matchFilter: what follows the element loop in the `[]interface{}` case of the type switch
	_, pdf := parseFile("vcr/pe/presentation_definition.go")
	arrayGuard := ".unknown_matchFilter_not_found"
	if fd := funcDecl(pdf, "matchFilter"); fd != nil {
		ast.Inspect(fd, func(n ast.Node) bool {
			ts, ok := n.(*ast.TypeSwitchStmt)
			if !ok {
				return true
			}
			for _, c := range ts.Body.List {
				cc := c.(*ast.CaseClause)
				if len(cc.List) != 1 {
					continue
				}
				if at, ok := cc.List[0].(*ast.ArrayType); !ok || at.Len != nil {
					continue
				}
				// body: a range loop, then possibly more
				if len(cc.Body) == 0 {
					arrayGuard = ".unknown_array_case_empty"
					continue
				}
				if _, ok := cc.Body[0].(*ast.RangeStmt); !ok {
					arrayGuard = ".unknown_array_case_no_loop"
					continue
				}
				rest := cc.Body[1:]
				switch {
				case len(rest) == 0:
					arrayGuard = "false"
				case len(rest) == 1:
					arrayGuard = ".unknown_array_case_tail"
					if is, ok := rest[0].(*ast.IfStmt); ok && is.Else == nil && is.Init == nil &&
						exprString(is.Cond) == `filter.Type != "array"` && len(is.Body.List) == 1 {
						if rs, ok := is.Body.List[0].(*ast.ReturnStmt); ok && len(rs.Results) == 3 &&
							exprString(rs.Results[0]) == "false" && exprString(rs.Results[1]) == "nil" && exprString(rs.Results[2]) == "nil" {
							arrayGuard = "true"
						}
					}
				default:
					arrayGuard = ".unknown_array_case_tail"
				}
			}
			return false
		})
	}
	// does the pattern branch still assert value.(string) (the panic site of the unguarded code)?
	patternAsserts := false
	if fd := funcDecl(pdf, "matchFilter"); fd != nil {
		ast.Inspect(fd, func(n ast.Node) bool {
			if ta, ok := n.(*ast.TypeAssertExpr); ok && ta.Type != nil && exprString(ta.X) == "value" && exprString(ta.Type) == "string" {
				patternAsserts = true
			}
			return true
		})
	}

	// ---- apply: pointer dereferences of Count/Min/Max and whether a nil test dominates them
	_, srf := parseFile("vcr/pe/submission_requirement.go")
	derefs := map[string][]bool{}
	if fd := funcDecl(srf, "apply"); fd != nil {
		derefs = c12Derefs(fd, "submissionRequirement")
	} else {
		derefs["APPLY_NOT_FOUND"] = []bool{false}
	}
	var names []string
	for k := range derefs {
		names = append(names, k)
	}
	sort.Strings(names)
	var items []string
	raw := map[string]interface{}{}
	for _, k := range names {
		all := true
		for _, g := range derefs[k] {
			all = all && g
		}
		items = append(items, fmt.Sprintf("(%q, %v)", k, all))
		raw[k] = all
	}
	l.def("applyDerefGuarded", "List (String × Bool)", "["+strings.Join(items, ", ")+"]", raw)
	maxGuarded := "false"
	if g, ok := derefs["Max"]; ok {
		maxGuarded = "true"
		for _, x := range g {
			if !x {
				maxGuarded = "false"
			}
		}
	} else {
		maxGuarded = ".unknown_no_Max_dereference"
	}
	// ---- Resolve: is a second descriptor-map entry for the same input descriptor id rejected?
	_, psf0 := parseFile("vcr/pe/presentation_submission.go")
	dupCheck := ".unknown_Resolve_not_found"
	if fd := funcDecl(psf0, "Resolve"); fd != nil {
		dupCheck = ".unknown_Resolve_has_no_loop_over_DescriptorMap"
		ast.Inspect(fd, func(n ast.Node) bool {
			rs, ok := n.(*ast.RangeStmt)
			if !ok || exprString(rs.X) != "s.DescriptorMap" {
				return true
			}
			elem := exprString(rs.Value)
			dupCheck = "false"
			for _, st := range rs.Body.List {
				is, ok := st.(*ast.IfStmt)
				if !ok || is.Init == nil {
					continue
				}
				as, ok := is.Init.(*ast.AssignStmt)
				if !ok || len(as.Lhs) != 2 || len(as.Rhs) != 1 || exprString(as.Rhs[0]) != "result["+elem+".Id]" {
					continue
				}
				if exprString(is.Cond) != exprString(as.Lhs[1]) || len(is.Body.List) == 0 {
					continue
				}
				if ret, ok := is.Body.List[len(is.Body.List)-1].(*ast.ReturnStmt); ok && len(ret.Results) == 2 && exprString(ret.Results[0]) == "nil" {
					dupCheck = "true"
				}
			}
			return false
		})
	}
	// ---- resolveCredential: the "is it a credential -> return it" test sits INSIDE `if mapping.PathNested == nil`, and no
	// such early return precedes it: a path_nested is always evaluated, also below a value that already is a credential
	nestedFirst := false
	if fd := funcDecl(psf0, "resolveCredential"); fd != nil {
		isCredReturn := func(st ast.Stmt) bool {
			is, ok := st.(*ast.IfStmt)
			if !ok || is.Init == nil {
				return false
			}
			as, ok := is.Init.(*ast.AssignStmt)
			if !ok || len(as.Rhs) != 1 {
				return false
			}
			ta, ok := as.Rhs[0].(*ast.TypeAssertExpr)
			if !ok || exprString(ta.X) != "decodedTargetValue" || exprString(ta.Type) != "*vc.VerifiableCredential" || len(is.Body.List) == 0 {
				return false
			}
			_, ok = is.Body.List[len(is.Body.List)-1].(*ast.ReturnStmt)
			return ok
		}
		early, inside := false, false
		for _, st := range fd.Body.List {
			if isCredReturn(st) {
				early = true
			}
			if is, ok := st.(*ast.IfStmt); ok && exprString(is.Cond) == "mapping.PathNested == nil" {
				for _, in := range is.Body.List {
					if isCredReturn(in) {
						inside = true
					}
				}
				if len(is.Body.List) == 0 {
					inside = false
				} else if _, ok := is.Body.List[len(is.Body.List)-1].(*ast.ReturnStmt); !ok {
					inside = false
				}
			}
		}
		nestedFirst = inside && !early
	}
	l.def("resolveEvaluatesPathNestedBeforeReturningCredential", "Bool", fmt.Sprint(nestedFirst), nestedFirst)
	// ---- util.go parseJSONArrayEnvelope: the cases of the entry type switch, and whether the loop can skip an entry
	_, utf := parseFile("vcr/pe/util.go")
	var swCases []string
	hasContinue := false
	if fd := funcDecl(utf, "parseJSONArrayEnvelope"); fd != nil {
		ast.Inspect(fd, func(n ast.Node) bool {
			switch x := n.(type) {
			case *ast.TypeSwitchStmt:
				for _, c := range x.Body.List {
					cc := c.(*ast.CaseClause)
					if cc.List == nil {
						swCases = append(swCases, "default")
					}
					for _, e := range cc.List {
						swCases = append(swCases, exprString(e))
					}
				}
			case *ast.BranchStmt:
				if x.Tok == token.CONTINUE {
					hasContinue = true
				}
			}
			return true
		})
	} else {
		swCases = []string{"FUNCTION_NOT_FOUND"}
	}
	l.def("arrayEnvelopeSwitchCases", "List String", leanStrList(swCases), swCases)
	l.def("arrayEnvelopeLoopHasContinue", "Bool", fmt.Sprint(hasContinue), hasContinue)
	l.def("resolveRejectsDuplicateIds", "Bool", dupCheck, dupCheck)
	// ---- apply: the "take max" loop (the range loop whose body mentions *submissionRequirement.Max): is the
	// `index == *Max` test the first statement of the body (before a member is taken) or the last (after)?
	// and is there a `*Max < *Min` rejection?
	maxFirst := ".unknown_apply_has_no_max_loop"
	minMax := "false"
	if fd := funcDecl(srf, "apply"); fd != nil {
		ast.Inspect(fd, func(n ast.Node) bool {
			if is, ok := n.(*ast.IfStmt); ok {
				c := exprString(is.Cond)
				if strings.Contains(c, "*submissionRequirement.Max < *submissionRequirement.Min") && len(is.Body.List) > 0 {
					if _, ok := is.Body.List[len(is.Body.List)-1].(*ast.ReturnStmt); ok {
						minMax = "true"
					}
				}
			}
			rs, ok := n.(*ast.RangeStmt)
			if !ok || len(rs.Body.List) == 0 {
				return true
			}
			isMaxTest := func(st ast.Stmt) bool {
				is, ok := st.(*ast.IfStmt)
				if !ok || !strings.Contains(exprString(is.Cond), "== *submissionRequirement.Max") || len(is.Body.List) == 0 {
					return false
				}
				br, ok := is.Body.List[len(is.Body.List)-1].(*ast.BranchStmt)
				return ok && br.Tok == token.BREAK
			}
			any := false
			for _, st := range rs.Body.List {
				any = any || isMaxTest(st)
			}
			if !any {
				return true
			}
			switch {
			case len(rs.Body.List) == 2 && isMaxTest(rs.Body.List[0]) && !isMaxTest(rs.Body.List[1]):
				maxFirst = "true"
			case len(rs.Body.List) == 2 && isMaxTest(rs.Body.List[1]) && !isMaxTest(rs.Body.List[0]):
				maxFirst = "false"
			default:
				maxFirst = ".unknown_max_loop_shape"
			}
			return true
		})
	}
	// the counter compared with *Max counts members TAKEN: the range key is not used, the counter is a separate variable that
	// is incremented exactly in the branch that takes a member
	countsTaken := false
	if fd := funcDecl(srf, "apply"); fd != nil {
		ast.Inspect(fd, func(n ast.Node) bool {
			rs, ok := n.(*ast.RangeStmt)
			if !ok || len(rs.Body.List) != 2 {
				return true
			}
			test, ok := rs.Body.List[0].(*ast.IfStmt)
			if !ok || !strings.Contains(exprString(test.Cond), "== *submissionRequirement.Max") {
				return true
			}
			counter := ""
			for _, c := range c12Conjuncts(test.Cond) {
				if be, ok := c.(*ast.BinaryExpr); ok && be.Op == token.EQL && exprString(be.Y) == "*submissionRequirement.Max" {
					counter = exprString(be.X)
				}
			}
			keyUnused := rs.Key == nil || exprString(rs.Key) == "_"
			take, ok := rs.Body.List[1].(*ast.IfStmt)
			incInTake := false
			if ok && exprString(take.Cond) == "!member.empty()" {
				for _, st := range take.Body.List {
					if inc, ok := st.(*ast.IncDecStmt); ok && inc.Tok == token.INC && exprString(inc.X) == counter {
						incInTake = true
					}
				}
			}
			countsTaken = counter != "" && keyUnused && incInTake
			return true
		})
	}
	// the "count" loop: `if i == *submissionRequirement.Count { break }` as LAST statement of the range body, the compared
	// expression is a plain counter variable (not len(returnVCs): a nested member flattens to several credentials), the range
	// key is unused and the counter is incremented exactly in the `!member.empty()` branch that takes the member
	countCountsTaken := false
	if fd := funcDecl(srf, "apply"); fd != nil {
		ast.Inspect(fd, func(n ast.Node) bool {
			rs, ok := n.(*ast.RangeStmt)
			if !ok || len(rs.Body.List) != 2 {
				return true
			}
			test, ok := rs.Body.List[1].(*ast.IfStmt)
			if !ok || !strings.Contains(exprString(test.Cond), "== *submissionRequirement.Count") {
				return true
			}
			counter := ""
			if be, ok := test.Cond.(*ast.BinaryExpr); ok && be.Op == token.EQL && exprString(be.Y) == "*submissionRequirement.Count" {
				if id, ok := be.X.(*ast.Ident); ok {
					counter = id.Name
				}
			}
			brk := false
			if len(test.Body.List) > 0 {
				if br, ok := test.Body.List[len(test.Body.List)-1].(*ast.BranchStmt); ok && br.Tok == token.BREAK {
					brk = true
				}
			}
			keyUnused := rs.Key == nil || exprString(rs.Key) == "_"
			take, ok := rs.Body.List[0].(*ast.IfStmt)
			incInTake := false
			if ok && exprString(take.Cond) == "!member.empty()" && take.Else == nil {
				for _, st := range take.Body.List {
					if inc, ok := st.(*ast.IncDecStmt); ok && inc.Tok == token.INC && exprString(inc.X) == counter {
						incInTake = true
					}
				}
			}
			countCountsTaken = counter != "" && keyUnused && incInTake && brk
			return true
		})
	}
	l.def("applyCountCountsTakenMembers", "Bool", fmt.Sprint(countCountsTaken), countCountsTaken)
	l.def("applyMaxCountsTakenMembers", "Bool", fmt.Sprint(countsTaken), countsTaken)
	l.def("applyMaxTestBeforeTake", "Bool", maxFirst, maxFirst)
	l.def("applyRejectsMinAboveMax", "Bool", minMax, minMax)
	// ---- matchFilter: is a MatchTimeout assigned to the compiled pattern before it is run, and is it a finite constant?
	timeoutSet, timeoutExpr := false, ""
	if fd := funcDecl(pdf, "matchFilter"); fd != nil {
		var assignPos, runPos token.Pos
		ast.Inspect(fd, func(n ast.Node) bool {
			switch x := n.(type) {
			case *ast.AssignStmt:
				if len(x.Lhs) == 1 && len(x.Rhs) == 1 && exprString(x.Lhs[0]) == "re.MatchTimeout" {
					assignPos, timeoutExpr = x.Pos(), exprString(x.Rhs[0])
				}
			case *ast.CallExpr:
				if exprString(x.Fun) == "re.FindStringMatch" {
					runPos = x.Pos()
				}
			}
			return true
		})
		timeoutSet = assignPos.IsValid() && runPos.IsValid() && assignPos < runPos
	}
	timeoutValue := ""
	for _, d := range pdf.Decls {
		if gd, ok := d.(*ast.GenDecl); ok && gd.Tok == token.CONST {
			for _, sp := range gd.Specs {
				vs := sp.(*ast.ValueSpec)
				for i, n := range vs.Names {
					if n.Name == timeoutExpr && i < len(vs.Values) {
						timeoutValue = exprString(vs.Values[i])
					}
				}
			}
		}
	}
	l.def("regexMatchTimeoutSetBeforeRun", "Bool", fmt.Sprint(timeoutSet), timeoutSet)
	l.def("regexMatchTimeoutValue", "String", fmt.Sprintf("%q", timeoutValue), timeoutValue)
	// ---- nil entries: Match / ResolveConstraintsFields begin with checkNoNilEntries, which tests the descriptors and recurses
	// into FromNested; CredentialsRequired skips nil requirements
	startsWithNilCheck := func(name string) bool {
		fd := funcDecl(pdf, name)
		if fd == nil || len(fd.Body.List) == 0 {
			return false
		}
		is, ok := fd.Body.List[0].(*ast.IfStmt)
		if !ok || is.Init == nil || exprString(is.Cond) != "err != nil" || len(is.Body.List) == 0 {
			return false
		}
		as, ok := is.Init.(*ast.AssignStmt)
		if !ok || len(as.Rhs) != 1 || exprString(as.Rhs[0]) != "presentationDefinition.checkNoNilEntries()" {
			return false
		}
		_, ok = is.Body.List[len(is.Body.List)-1].(*ast.ReturnStmt)
		return ok
	}
	checkerOK := false
	if fd := funcDecl(pdf, "checkNoNilEntries"); fd != nil {
		nilTests, recurses := 0, false
		ast.Inspect(fd, func(n ast.Node) bool {
			switch x := n.(type) {
			case *ast.BinaryExpr:
				if x.Op == token.EQL && exprString(x.Y) == "nil" && (exprString(x.X) == "inputDescriptor" || exprString(x.X) == "requirement") {
					nilTests++
				}
			case *ast.CallExpr:
				if exprString(x.Fun) == "check" && len(x.Args) == 1 && exprString(x.Args[0]) == "requirement.FromNested" {
					recurses = true
				}
			}
			return true
		})
		checkerOK = nilTests == 2 && recurses
	}
	requiredSkipsNil := false
	if fd := funcDecl(pdf, "CredentialsRequired"); fd != nil {
		ast.Inspect(fd, func(n ast.Node) bool {
			if rs, ok := n.(*ast.RangeStmt); ok && exprString(rs.X) == "presentationDefinition.SubmissionRequirements" && len(rs.Body.List) > 0 {
				if is, ok := rs.Body.List[0].(*ast.IfStmt); ok && exprString(is.Cond) == exprString(rs.Value)+" == nil" && len(is.Body.List) == 1 {
					if br, ok := is.Body.List[0].(*ast.BranchStmt); ok && br.Tok == token.CONTINUE {
						requiredSkipsNil = true
					}
				}
			}
			return true
		})
	}
	nilChecked := startsWithNilCheck("Match") && startsWithNilCheck("ResolveConstraintsFields") && checkerOK && requiredSkipsNil
	l.def("nilEntriesChecked", "Bool", fmt.Sprint(nilChecked), nilChecked)
	l.def("matchFilterArrayGuard", "Bool", arrayGuard, arrayGuard)
	l.def("matchFilterAssertsString", "Bool", fmt.Sprint(patternAsserts), patternAsserts)
	l.def("applyMaxGuarded", "Bool", maxGuarded, maxGuarded)
	l.sb.WriteString("def cfg : Cfg := { arrayGuard := matchFilterArrayGuard, maxNilCheck := applyMaxGuarded, dupCheck := resolveRejectsDuplicateIds, maxCheckFirst := applyMaxTestBeforeTake, minMaxCheck := applyRejectsMinAboveMax, nilCheck := nilEntriesChecked }\n")

	// ---- JSON schema of a submission requirement: rule names and lower bounds of count/min/max (both oneOf branches)
	b, err := os.ReadFile(filepath.Join(repo, "vcr/pe/schema/v2/submission-requirement.json"))
	must(err)
	var schema struct {
		Definitions map[string]struct {
			OneOf []struct {
				Properties map[string]struct {
					Type    string   `json:"type"`
					Enum    []string `json:"enum"`
					Minimum *int     `json:"minimum"`
				} `json:"properties"`
				Required             []string `json:"required"`
				AdditionalProperties *bool    `json:"additionalProperties"`
			} `json:"oneOf"`
		} `json:"definitions"`
	}
	must(json.Unmarshal(b, &schema))
	var branches []string
	var rawBranches []interface{}
	for _, br := range schema.Definitions["submission_requirement"].OneOf {
		mn := func(k string) int {
			if p, ok := br.Properties[k]; ok && p.Minimum != nil && p.Type == "integer" {
				return *p.Minimum
			}
			return -1
		}
		rules := append([]string{}, br.Properties["rule"].Enum...)
		sort.Strings(rules)
		req := append([]string{}, br.Required...)
		sort.Strings(req)
		closed := br.AdditionalProperties != nil && !*br.AdditionalProperties
		_, hasFrom := br.Properties["from"]
		_, hasNested := br.Properties["from_nested"]
		branches = append(branches, fmt.Sprintf("{ rules := %s, required := %s, countMin := %d, minMin := %d, maxMin := %d, closed := %v, hasFrom := %v, hasNested := %v }",
			leanStrList(rules), leanStrList(req), mn("count"), mn("min"), mn("max"), closed, hasFrom, hasNested))
		rawBranches = append(rawBranches, map[string]interface{}{"rules": rules, "required": req, "countMin": mn("count"), "minMin": mn("min"), "maxMin": mn("max"), "closed": closed})
	}
	l.sb.WriteString("structure SRSchemaBranch where\n  rules : List String\n  required : List String\n  countMin : Int\n  minMin : Int\n  maxMin : Int\n  closed : Bool\n  hasFrom : Bool\n  hasNested : Bool\n  deriving DecidableEq, Repr\n")
	l.def("srSchema", "List SRSchemaBranch", "["+strings.Join(branches, ", ")+"]", rawBranches)

	// ---- the mapping paths written by matchBasic/matchSubmissionRequirements and the single-mapping rewrite in Build
	_, psf := parseFile("vcr/pe/presentation_submission.go")
	var fmtPaths, rewrite []string
	collect := func(f *ast.File, into *[]string, pred func(string) bool) {
		ast.Inspect(f, func(n ast.Node) bool {
			if bl, ok := n.(*ast.BasicLit); ok && bl.Kind == token.STRING && strings.Contains(bl.Value, "verifiableCredential") && pred(bl.Value) {
				*into = append(*into, strings.Trim(bl.Value, "\""))
			}
			return true
		})
	}
	collect(pdf, &fmtPaths, func(string) bool { return true })
	collect(psf, &rewrite, func(string) bool { return true })
	fmtPaths = uniqSorted(fmtPaths)
	rewrite = uniqSorted(rewrite)
	// ---- consumers of vcr/pe: how the results are wired (call sites)
	// (a) every caller of PEXConsumer.fulfill in auth/api/iam returns when it fails
	var fulfillCallers []string
	rawCallers := map[string]interface{}{}
	iamFiles, _ := filepath.Glob(filepath.Join(repo, "auth/api/iam/*.go"))
	sort.Strings(iamFiles)
	for _, fn := range iamFiles {
		if strings.HasSuffix(fn, "_test.go") {
			continue
		}
		rel, _ := filepath.Rel(repo, fn)
		_, af := parseFile(rel)
		for _, d := range af.Decls {
			fd, ok := d.(*ast.FuncDecl)
			if !ok || fd.Body == nil {
				continue
			}
			ast.Inspect(fd.Body, func(n ast.Node) bool {
				switch x := n.(type) {
				case *ast.IfStmt:
					if as, ok := x.Init.(*ast.AssignStmt); ok && len(as.Rhs) == 1 {
						if ce, ok := as.Rhs[0].(*ast.CallExpr); ok && strings.HasSuffix(exprString(ce.Fun), ".fulfill") {
							guarded := exprString(x.Cond) == "err != nil" && len(x.Body.List) > 0
							if guarded {
								_, guarded = x.Body.List[len(x.Body.List)-1].(*ast.ReturnStmt)
							}
							fulfillCallers = append(fulfillCallers, fmt.Sprintf("(%q, %v)", fd.Name.Name, guarded))
							rawCallers[fd.Name.Name] = guarded
							return false
						}
					}
				case *ast.CallExpr:
					if strings.HasSuffix(exprString(x.Fun), ".fulfill") {
						fulfillCallers = append(fulfillCallers, fmt.Sprintf("(%q, false)", fd.Name.Name))
						rawCallers[fd.Name.Name] = false
					}
				}
				return true
			})
		}
	}
	sort.Strings(fulfillCallers)
	l.def("iamFulfillCallers", "List (String × Bool)", "["+strings.Join(fulfillCallers, ", ")+"]", rawCallers)

	// (b) access_token.go: the claims come from resolveInputDescriptorValues over the map returned by credentialMap()
	_, atf := parseFile("auth/api/iam/access_token.go")
	cmVar, fieldsFromCM := "", false
	ast.Inspect(atf, func(n ast.Node) bool {
		switch x := n.(type) {
		case *ast.AssignStmt:
			if len(x.Rhs) == 1 && len(x.Lhs) >= 1 {
				if ce, ok := x.Rhs[0].(*ast.CallExpr); ok && strings.HasSuffix(exprString(ce.Fun), ".credentialMap") {
					cmVar = exprString(x.Lhs[0])
				}
			}
		case *ast.CallExpr:
			if exprString(x.Fun) == "resolveInputDescriptorValues" && len(x.Args) == 2 && cmVar != "" && exprString(x.Args[1]) == cmVar {
				fieldsFromCM = true
			}
		}
		return true
	})
	l.def("accessTokenFieldsFromCredentialMap", "Bool", fmt.Sprint(fieldsFromCM), fieldsFromCM)

	// (c) session.go: fulfill validates against the required definition and stores only afterwards; credentialMap resolves the
	//     stored submission in the stored envelope of the same definition
	_, ssf := parseFile("auth/api/iam/session.go")
	fulfillValidates, cmSameKey := false, false
	if fd := funcDecl(ssf, "fulfill"); fd != nil {
		var validatePos, storePos token.Pos
		ast.Inspect(fd, func(n ast.Node) bool {
			switch x := n.(type) {
			case *ast.CallExpr:
				if exprString(x.Fun) == "submission.Validate" && len(x.Args) == 2 && exprString(x.Args[0]) == "envelope" && exprString(x.Args[1]) == "*definition" {
					validatePos = x.Pos()
				}
			case *ast.AssignStmt:
				if len(x.Lhs) == 1 && exprString(x.Lhs[0]) == "v.Submissions[definitionID]" {
					storePos = x.Pos()
				}
			}
			return true
		})
		fulfillValidates = validatePos.IsValid() && storePos.IsValid() && validatePos < storePos
	}
	if fd := funcDecl(ssf, "credentialMap"); fd != nil {
		subKey, envKey, resolveOK := "", "", false
		ast.Inspect(fd, func(n ast.Node) bool {
			switch x := n.(type) {
			case *ast.AssignStmt:
				if len(x.Lhs) == 1 && len(x.Rhs) == 1 {
					r := exprString(x.Rhs[0])
					if strings.HasPrefix(r, "v.Submissions[") {
						subKey = r[len("v.Submissions["):]
					}
					if strings.HasPrefix(r, "v.SubmittedEnvelopes[") {
						envKey = r[len("v.SubmittedEnvelopes["):]
					}
				}
			case *ast.CallExpr:
				if exprString(x.Fun) == "submission.Resolve" && len(x.Args) == 1 && exprString(x.Args[0]) == "pexEnvelope" {
					resolveOK = true
				}
			}
			return true
		})
		cmSameKey = resolveOK && subKey != "" && subKey == envKey
	}
	l.def("fulfillValidatesBeforeStoring", "Bool", fmt.Sprint(fulfillValidates), fulfillValidates)
	l.def("credentialMapResolvesInOwnEnvelope", "Bool", fmt.Sprint(cmSameKey), cmSameKey)

	// (d) discovery/module.go: Search zips Match's two results by the same index; a registration must match ALL its credentials
	_, dmf := parseFile("discovery/module.go")
	zipAligned, regAll := false, false
	ast.Inspect(dmf, func(n ast.Node) bool {
		switch x := n.(type) {
		case *ast.AssignStmt:
			if len(x.Lhs) == 1 && len(x.Rhs) == 1 {
				lh, rh := exprString(x.Lhs[0]), exprString(x.Rhs[0])
				if lh == "credentialMap[inputDescriptorMappingObjects[i].Id]" && rh == "submissionVCs[i]" {
					zipAligned = true
				}
			}
			if len(x.Lhs) == 3 && len(x.Rhs) == 1 && strings.HasSuffix(exprString(x.Rhs[0]), "PresentationDefinition.Match()") {
				if exprString(x.Lhs[0]) != "submissionVCs" && exprString(x.Lhs[0]) != "creds" {
					zipAligned = false
				}
			}
		case *ast.RangeStmt:
			// newer shape: every presented credential must be among the matched ones
			if exprString(x.X) == "presentation.VerifiableCredential" && x.Value != nil && len(x.Body.List) == 1 {
				if is, ok := x.Body.List[0].(*ast.IfStmt); ok && len(is.Body.List) == 1 {
					if ue, ok := is.Cond.(*ast.UnaryExpr); ok && ue.Op == token.NOT {
						if ce, ok := ue.X.(*ast.CallExpr); ok && exprString(ce.Fun) == "containsCredential" && len(ce.Args) == 2 &&
							exprString(ce.Args[0]) == "creds" && exprString(ce.Args[1]) == exprString(x.Value) {
							if _, ok := is.Body.List[0].(*ast.ReturnStmt); ok {
								regAll = true
							}
						}
					}
				}
			}
		case *ast.IfStmt:
			if be, ok := x.Cond.(*ast.BinaryExpr); ok && be.Op == token.NEQ && len(x.Body.List) == 1 {
				lx, ok1 := be.X.(*ast.CallExpr)
				ly, ok2 := be.Y.(*ast.CallExpr)
				if ok1 && ok2 && exprString(lx.Fun) == "len" && exprString(ly.Fun) == "len" && len(lx.Args) == 1 && len(ly.Args) == 1 &&
					exprString(lx.Args[0]) == "creds" && exprString(ly.Args[0]) == "presentation.VerifiableCredential" {
					if _, ok := x.Body.List[0].(*ast.ReturnStmt); ok {
						regAll = true
					}
				}
			}
		}
		return true
	})
	l.def("discoverySearchZipsMatchResultsByIndex", "Bool", fmt.Sprint(zipAligned), zipAligned)
	l.def("discoveryRegistrationMatchesAllCredentials", "Bool", fmt.Sprint(regAll), regAll)

	// (e) vcr/holder/presenter.go: the presentation is built from exactly the sign instruction's credentials, with the format passed to Build
	_, hpf := parseFile("vcr/holder/presenter.go")
	presentsSelected := false
	if fd := funcDecl(hpf, "buildSubmission"); fd != nil {
		ast.Inspect(fd, func(n ast.Node) bool {
			if ce, ok := n.(*ast.CallExpr); ok && strings.HasSuffix(exprString(ce.Fun), ".buildPresentation") && len(ce.Args) >= 3 &&
				exprString(ce.Args[2]) == "signInstruction.VerifiableCredentials" {
				presentsSelected = true
			}
			return true
		})
	}
	l.def("presenterPresentsSignInstructionCredentials", "Bool", fmt.Sprint(presentsSelected), presentsSelected)

	// (f) Validate zips the sign instruction's mappings and credentials by the same index
	validateZip := false
	if fd := funcDecl(psf, "Validate"); fd != nil {
		ast.Inspect(fd, func(n ast.Node) bool {
			if rs, ok := n.(*ast.RangeStmt); ok && exprString(rs.X) == "signInstruction.Mappings" && rs.Key != nil && rs.Value != nil && len(rs.Body.List) == 1 {
				if as, ok := rs.Body.List[0].(*ast.AssignStmt); ok && len(as.Lhs) == 1 && len(as.Rhs) == 1 &&
					exprString(as.Lhs[0]) == "expectedCredentials["+exprString(rs.Value)+".Id]" &&
					exprString(as.Rhs[0]) == "signInstruction.VerifiableCredentials["+exprString(rs.Key)+"]" {
					validateZip = true
				}
			}
			return true
		})
	}
	l.def("validateZipsMappingsAndCredentialsByIndex", "Bool", fmt.Sprint(validateZip), validateZip)
	l.def("mappingPathFormats", "List String", leanStrList(fmtPaths), fmtPaths)
	l.def("singleMappingPaths", "List String", leanStrList(rewrite), rewrite)
	c12ConsumerFacts(l)
	c12EnvelopeFacts(l)
	return l
}

func uniqSorted(l []string) []string {
	m := map[string]bool{}
	for _, s := range l {
		m[s] = true
	}
	return sortedKeys(m)
}
