#!/usr/bin/env python3
"""Regenerates /verif/MANIFEST.json from the table below (kept in one place so it is always valid)."""
import json, os
ROOT = os.path.dirname(os.path.dirname(os.path.abspath(__file__)))
ALL = ["C%02d" % i for i in range(1, 21)]
CHECKS = {
 "C10": dict(
   technique="Lean 4 theorems (order-independence by sorted-permutation uniqueness + fold invariant) over a hand-written model; regenerated go/ast facts; all-permutation differential against the real didstore",
   text="Proof: for every finite event set, every two arrival sequences (any permutation, duplicates, independent stores, any Go map iteration order) yield the identical event list, metadata chain, documents and conflicted flag per DID, hence identical Resolve answers and identical DocumentCount/ConflictedCount (resolve_order_independent, stats_order_independent, store_is_fold, merge_deterministic, deactivated_monotone, conflict_resolved_by_covering_update). The model is tied to the source by regenerated facts (which merged fields are sorted, no map range in the writer, conflicted flag read unconditionally) that are Lean proof obligations, and by a line-by-line differential of the compiled model against the real store on all permutations of generated event sets.",
   note="Trusted: Lean kernel; extractor; harness/canonicaliser; go-did JSON, SHA-256, bbolt atomicity are modelled contracts.",
   ref="5 C10"),
 "C09": dict(
   technique="Lean 4 theorems (exact acceptance characterisation, inertness, induction over histories, depth-bounded controller recursion) over a hand-written model of ambassador/validators/resolver on top of the C10 store model; regenerated go/ast facts; history differential against the real ambassador + didstore + resolvers with really signed transactions",
   text="Proof: callback_accepts_iff characterises acceptance exactly; accepted_create_sound / accepted_update_sound (+ *_signed_by_* under injective thumbprints) give the authorisation predicate of the property; rejected_inert and resolvable_only_if_accepted (induction over all histories) show a rejected pair never becomes resolvable nor changes authorised keys; controller_chain_bounded / controller_cycle_refused / deactivated_controller_rejected / removed_key_rejected; validator_rules_sound_complete + each_necessary. The literal validator statement (validator_rules_Stmt) is proved FALSE of the code by witness for verification methods embedded in relationships (open known finding C09:accepted-embedded-method-violating-nuts-rules, replayed on the real code). Tie: 13 fact_* obligations over regenerated facts and a delivery-by-delivery differential (outcome class, raw bbolt digest, every Resolve/key-resolver answer) plus implementation-only oracles (rejected => database byte-identical, accepted => well-formed / authorised).",
   note="Trusted: Lean kernel; extractor; harness. Contracts (modelled, not verified): go-did parsing and W3C validator flags, JWK thumbprints, JWS verification, bbolt atomicity; only JsonWebKey2020 methods modelled. Authorisation is relative to the version the prevs select (forks from older versions are merged as conflicts by design, C10). Concurrent callbacks not modelled.",
   ref="5 C09"),
 "C12": dict(
   technique="Lean 4 theorems (soundness/completeness of matchFilter against an independent spec, rule satisfaction by structural recursion over nested requirements, Validate = re-match characterisation, totality) over a hand-written model of vcr/pe; regenerated go/ast + JSON-schema facts; schema-directed generator differential + independent reference matcher",
   text="Proof, for all definitions/wallets/envelopes/submissions: pe_total_* (no panic), filter_sound_and_complete, match_sound (+_rules/_requirements), match_complete_or_error(_rules), build_reports_missing_credentials, forged_mapping_rejected with corollaries surplus/forged/incomplete, validate_rejects_without_complete_selection, field_values_faithful, two_capture_groups_is_error. wallet_verifier_agree holds only as _partial (hypothesis hstable); the full statement is kept as a def and its negation is proved by witness and replayed on the real code (open known finding: Validate re-matches, so a credential satisfying several descriptors can make the verifier reject the wallet's own submission). Tie: fact_* obligations (array guard, nil guards on count/min/max, max-before-take, min>max, duplicate-id rejection, schema bounds) + line differential on ~30k ops (quick) + reference-matcher oracles on the implementation's outputs. Five genuine defects were established and repaired (fix: commits), witnesses in the corpus.",
   note="Trusted: Lean kernel; extractor; harness; Python reference matcher. Contracts (data from the harness, not modelled): regexp2 results, JSONPath on the generated subset ($, .k, ['k'], [n], trailing [*]), go-did views/Raw(), envelope parsing, JSON-schema validator. match_complete_or_error has one hypothesis (an error ignored by the enum loop did not hide a match).",
   ref="5 C12"),
 "C13": dict(
   technique="Lean 4 invariants over a reachability relation (all operation sequences x fault/stop positions x method commit orders x sweep transaction orders x re-stamping) on a hand-written model of the SQL rows, change log and did:nuts publication; regenerated go/ast facts; cut-point enumeration differential against the real SqlManager + real didweb/didnuts managers",
   text="Proof over Reach (every op sequence, every fault/stop cut, every commit order, ticks, sweeps in any order): uniform_versions, versions_consecutive(_monotone), subject_unique, all_or_nothing (any reachable world whose change records are old: sweep succeeds, log empty, confirmed versions kept, each DID lost at most its pending head, uniform per subject), stopped_operation_resolved, failed_commit_restores, retry_enabled, abandoned_keys_unpublished (+ _partial delivering its premise for commit-failure and stop-before-first-commit; the stop between did:web's and did:nuts's commit is a stated gap with the full statement kept as a def). Pre-fix negation witnesses kept (old_*). Tie: fact_* obligations (60 s threshold, tx -> range MethodManagers:Commit -> tx shape, Rollback loads the whole transaction, IsCommitted not-found => (false,nil), version numbering) + event-by-event differential with every cut of every operation in three timing shapes + implementation-only oracles. Three genuine defects established and repaired (7882721, fc00979, 4209f73).",
   note="Trusted: Lean kernel; extractor; harness (fake network client only; everything else real). Assumptions stated in evidence: no operation in flight longer than the sweep threshold; no new operation on a subject while its change records remain (Clean premise); SQL atomicity/cascades, gorm, uuid/key freshness are contracts.",
   ref="5 C13"),
 "C04": dict(
   technique="Lean 4 theorems over a hand-written model of request-line parsing (net/http ReadRequest/ParseRequestURI), the echo router, the auth guard (selector = regenerated fact), the bind table and the token decision function; raw-TCP request-line differential against the real http.Engine; token-variant differential",
   text="Proof, for all byte-string request targets, methods, route tables, authority verdicts and listener configurations: no_bypass (a handler registered under /internal runs only if the guard was not skipped and the token decision is granted), denied_is_401_no_effect, denied_guarded_runs_nothing, granted_sound (iat<=nbf<=now<exp<=iat+1470min, UUID jti, aud, iss = key comment, sub set, every signature allow-listed without jwk/jku/x5c/x5u), internal_never_public, same_address_shared, configured_binds; pre-fix negation witnesses kept. Tie: 9 fact_* obligations (guard selector is URL.Path, bind table, allow-lists, lifetime constants) + ~20k raw TCP request lines per quick run against 4 real engines (two listeners/shared/no-auth/random route table) and ~970 token variants per round, compared line by line with the model, + oracle 'handler under /internal ran without valid token'. Two genuine defects established and repaired (9d21481 RequestURI selector bypass, fbeca0d exp=0 never expires).",
   note="Trusted: Lean kernel; extractor; harness. Contracts: net/http request parsing and the echo router are written-down models exercised on the generated grammar only; HTTP/2 not exercised; jwx verification verdicts are harness data. Routes registered with a different letter case (/Internal/x) are bound internal but not guarded — outside the property's text, noted.",
   ref="5 C04"),
 "C17": dict(
   technique="Lean 4 theorems: one uniform 'Disciplined' acceptance statement instantiated for eight token consumers modelled in code order, allow-lists as regenerated facts decided asymmetric; one hostile-variant generator applied to every consumer, accept/reject differential",
   text="Proof on the policy layer: accept_parseJWT / parseJWS / dpop / dagTx / apiToken / jar / vcJwt / ldProof => exactly one signature, algorithm on the consumer's regenerated allow-list and asymmetric, verified with the header algorithm over its own signing input, key from the consumer's source, embedded private keys refused (dpop under a stated jwx contract); allowed_lists_asymmetric (decide over regenerated lists), header_keys_ignored, apiToken_key_header_rejected; pre-fix negation witnesses. Tie: 7 fact_* obligations on the error-exit condition lists of every modelled function + ~15k variant lines per quick run (alg none/HS*/other family, 0/1/2 signatures via JSON serialisation, split confusion, jwk pub/priv/oct, jku, x5c, x5u, kid games, truncation, re-encoding) over ParseJWT, ParseJWS, dpop.Parse, ParseTransaction+verifier, tokenV2 middleware, jar.validate, VC/VP jwtSignature. Three genuine defects established and repaired (9640310 two-signature bearer token, 0f5d4b5 ParseJWS split confusion, bc0aac3 DAG embedded private jwk by the C06 builder).",
   note="Trusted: Lean kernel; extractor; harness. 'Verified over the exact bytes received' lives in the jwx contract (verdicts are harness data); jwx accepts non-canonical base64 and verifies the canonical re-encoding (counted in evidence, same decoded content). LDProof.Verify is modelled but has no harness; ES256K build tag not covered.",
   ref="5 C17"),
 "C01": dict(
   technique="Lean 4 theorems over a hand-written model in which every Go error return on the verification path is one named check (accept <=> conjunction of all checks); conditional tamper-evidence under explicit EUF/digest/canonicalisation hypotheses; regenerated ordered return/guard lists as facts; systematic-mutation differential against the real issuer, wallet and verifier",
   text="Proof: check_order_irrelevant_for_accept / vp_... (accept <=> all checks, permutation invariant), valid_only_if (assertion key listed under the proof's key id in the issuer's document resolved at the validation time, key id owned by the issuer, windows +- skew, not revoked, trusted when required), key_is_from_the_issuers_document, vp_valid_only_if (signer is subject of every carried credential, holder = signer, each VC verified), own_output_verifies_ld/_jwt, own_presentation_verifies. PARTIAL by construction: tamper_evident(_jwt/_vp) hold under hypotheses (unforgeability, digest injectivity, canonicalisation contract) with the residue undefined_member_unsigned stated and the measured residue list (members that can change without failing verification) written to the evidence. Tie: fact_* obligations pinning the ordered return lists of Verify, doVerifyVP, jsonldProof, jwtSignature, ParseJWT, PresentationSigner, Issue etc., maxSkew, algorithms + per-mutant differential (typed view, real canonical digests and real signature verdicts cross the line protocol) on ~4.6k verifications per quick run + model-independent oracles. Two genuine defects established and repaired (e2f889b, 995226b: case-folded JSON members read by Go but unsigned under JSON-LD).",
   note="Partial: canonicalisation (json-gold URDNA2015), SHA-256, JWS/jwx and go-did parsing are contracts monitored on every mutant, not proved. Trusted: Lean kernel; extractor; harness. Only EC P-256 keys; validAt=nil (time.Now) not exercised; status-list decision only (C11 owns the rest).",
   ref="5 C01"),
}
def main():
    checks = []
    for pid in ALL:
        if pid not in CHECKS or pid in PENDING:
            continue
        c = CHECKS[pid]
        checks.append({
            "property_id": pid,
            "quick_cmd": f"./check {pid} --tier quick",
            "thorough_cmd": f"./check {pid} --tier thorough",
            "evidence_file": f"/verif/evidence/{pid}.json",
            "replay_cmd_template": f"./check {pid} --replay {{path}}",
            "engine": "lean-proofs+go-correspondence",
            "level_claimed": {"category": c.get("category", "proof"), "text": c["text"], "design_ref": "DESIGN.md section " + c["ref"]},
            "level_note": c["note"],
            "technique": c["technique"],
        })
    na = [{"property_id": p, "reason": NA.get(p, "check not built yet in this round (model and harness in progress); no claim is made")} for p in ALL if p not in CHECKS or p in PENDING]
    m = {
        "version": 1,
        "setup_cmd": "cd /verif && ./setup.sh",
        "hooks": {
            "guard": "verif",
            "enable": "no source hooks in /repo: harness files live under /verif/harness/inpkg, carry //go:build verif and are injected with `go test -c -tags verif -overlay <json>`",
            "baseline_off_cmd": "for m in . ./vcr/pe/schema/gen; do (cd /repo/$m && go test -mod=mod -json -vet=off -count=1 -timeout 25m ./...); done",
            "source_commits": [],
            "add_only": True,
        },
        "engines": [
            {"name": "lean-proofs", "path": "/verif/lean", "serves_properties": [c["property_id"] for c in checks], "kind_free_text": "Lean 4 models (NutsModel), property theorems (NutsProofs/Props), axiom audit, compiled line-protocol driver (nutsmodel)"},
            {"name": "fact-extractor", "path": "/verif/extract", "serves_properties": [c["property_id"] for c in checks], "kind_free_text": "go/ast extractor regenerating lean/NutsModel/Facts/<ID>.lean from /repo on every run"},
            {"name": "go-correspondence", "path": "/verif/harness", "serves_properties": [c["property_id"] for c in checks], "kind_free_text": "in-package Go harnesses injected by -overlay, driving the real code; outputs diffed against the model driver"},
        ],
        "checks": checks,
        "not_applicable": na,
        "notes": "Fixes to nuts-node are unguarded 'fix:' commits in /repo listed in /verif/known_findings.json. See DESIGN.md.",
    }
    json.dump(m, open(os.path.join(ROOT, "MANIFEST.json"), "w"), indent=1)
    print("MANIFEST.json:", len(checks), "checks,", len(na), "not claimed")
NA = {}
PENDING = {"C17"}  # built but currently not green on the unchanged tree (being repaired): not claimed until it is
if __name__ == "__main__":
    main()
