#!/usr/bin/env python3
"""Regenerates /verif/MANIFEST.json from the table below (kept in one place so it is always valid)."""
import json, os
ROOT = os.path.dirname(os.path.dirname(os.path.abspath(__file__)))
ALL = ["C%02d" % i for i in range(1, 21)]
CHECKS = {
 "C10": dict(
   technique="Lean 4 theorems (order-independence by sorted-permutation uniqueness + fold invariant) over a hand-written model; regenerated go/ast facts; all-permutation differential against the real didstore",
   text="Proof: for every finite event set, every two arrival sequences (any permutation, duplicates, independent stores, any Go map iteration order) yield the identical event list, metadata chain, documents and conflicted flag per DID, hence identical Resolve answers and identical DocumentCount/ConflictedCount (resolve_order_independent, stats_order_independent, store_is_fold, merge_deterministic, deactivated_monotone, conflict_resolved_by_covering_update). The model is tied to the source by regenerated facts (which merged fields are sorted, no map range in the writer, conflicted flag read unconditionally) that are Lean proof obligations, and by a line-by-line differential of the compiled model against the real store on all permutations of generated event sets.",
   note="Trusted: Lean kernel; extractor; harness/canonicaliser; go-did JSON, SHA-256, bbolt atomicity are modelled contracts.",
   ref="5 C10"),
 "C09": dict(
   technique="Lean 4 theorems (exact acceptance characterisation, inertness, induction over histories, depth-bounded controller recursion) over a hand-written model of ambassador/validators/resolver on top of the C10 store model; regenerated go/ast facts; history differential against the real ambassador + didstore + resolvers with really signed transactions",
   text="Proof: callback_accepts_iff characterises acceptance exactly; accepted_create_sound / accepted_update_sound (+ *_signed_by_* under injective thumbprints) give the authorisation predicate of the property; rejected_inert and resolvable_only_if_accepted (induction over all histories) show a rejected pair never becomes resolvable nor changes authorised keys; controller_chain_bounded / controller_cycle_refused / deactivated_controller_rejected / removed_key_rejected; validator_rules_sound_complete + each_necessary. The literal validator statement (validator_rules_Stmt) is proved FALSE of the code by witness for verification methods embedded in relationships (open known finding C09:accepted-embedded-method-violating-nuts-rules, replayed on the real code). Tie: 13 fact_* obligations over regenerated facts and a delivery-by-delivery differential (outcome class, raw bbolt digest, every Resolve/key-resolver answer) plus implementation-only oracles (rejected => database byte-identical, accepted => well-formed / authorised).",
   note="Trusted: Lean kernel; extractor; harness. Contracts (modelled, not verified): go-did parsing and W3C validator flags, JWK thumbprints, JWS verification, bbolt atomicity; only JsonWebKey2020 methods modelled. Authorisation is relative to the version the prevs select (forks from older versions are merged as conflicts by design, C10). Concurrent callbacks not modelled.",
   ref="5 C09"),
}
def main():
    checks = []
    for pid in ALL:
        if pid not in CHECKS:
            continue
        c = CHECKS[pid]
        checks.append({
            "property_id": pid,
            "quick_cmd": f"./check {pid} --tier quick",
            "thorough_cmd": f"./check {pid} --tier thorough",
            "evidence_file": f"/verif/evidence/{pid}.json",
            "replay_cmd_template": f"./check {pid} --replay {{path}}",
            "engine": "lean-proofs+go-correspondence",
            "level_claimed": {"category": c.get("category", "proof"), "text": c["text"], "design_ref": "DESIGN.md section " + c["ref"]},
            "level_note": c["note"],
            "technique": c["technique"],
        })
    na = [{"property_id": p, "reason": NA.get(p, "check not built yet in this round (model and harness in progress); no claim is made")} for p in ALL if p not in CHECKS]
    m = {
        "version": 1,
        "setup_cmd": "cd /verif && ./setup.sh",
        "hooks": {
            "guard": "verif",
            "enable": "no source hooks in /repo: harness files live under /verif/harness/inpkg, carry //go:build verif and are injected with `go test -c -tags verif -overlay <json>`",
            "baseline_off_cmd": "for m in . ./vcr/pe/schema/gen; do (cd /repo/$m && go test -mod=mod -json -vet=off -count=1 -timeout 25m ./...); done",
            "source_commits": [],
            "add_only": True,
        },
        "engines": [
            {"name": "lean-proofs", "path": "/verif/lean", "serves_properties": [c["property_id"] for c in checks], "kind_free_text": "Lean 4 models (NutsModel), property theorems (NutsProofs/Props), axiom audit, compiled line-protocol driver (nutsmodel)"},
            {"name": "fact-extractor", "path": "/verif/extract", "serves_properties": [c["property_id"] for c in checks], "kind_free_text": "go/ast extractor regenerating lean/NutsModel/Facts/<ID>.lean from /repo on every run"},
            {"name": "go-correspondence", "path": "/verif/harness", "serves_properties": [c["property_id"] for c in checks], "kind_free_text": "in-package Go harnesses injected by -overlay, driving the real code; outputs diffed against the model driver"},
        ],
        "checks": checks,
        "not_applicable": na,
        "notes": "Fixes to nuts-node are unguarded 'fix:' commits in /repo listed in /verif/known_findings.json. See DESIGN.md.",
    }
    json.dump(m, open(os.path.join(ROOT, "MANIFEST.json"), "w"), indent=1)
    print("MANIFEST.json:", len(checks), "checks,", len(na), "not claimed")
NA = {}
if __name__ == "__main__":
    main()
