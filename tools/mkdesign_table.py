#!/usr/bin/env python3
"""regenerates the per-property table of DESIGN.md section 0 (between the BEGIN/END markers) from MANIFEST.json,
known_findings.json and seeded/*/meta.json"""
import json, glob, os, re, collections
R = os.path.dirname(os.path.dirname(os.path.abspath(__file__)))
k = json.load(open(f"{R}/known_findings.json")); ents = k if isinstance(k, list) else k.get("findings", k)
man = json.load(open(f"{R}/MANIFEST.json")); lv = {c["property_id"]: c["level_claimed"]["category"] + (" (PARTIAL, see MANIFEST level text)" if c["level_claimed"]["text"].upper().startswith("PARTIAL") else "") for c in man["checks"]}
fixed = collections.defaultdict(list); opn = collections.defaultdict(list)
for e in ents:
    if e["status"] == "fixed":
        c = e.get("commit", "?")
        if c not in fixed[e["property"]]: fixed[e["property"]].append(c)
    else:
        opn[e["property"]].append(e["signature"].split(":", 1)[-1][:70].replace("|", "\\|"))
seeds = collections.Counter(); caught = collections.Counter()
for d in glob.glob(f"{R}/seeded/*/meta.json"):
    m = json.load(open(d)); p = m["property"]; seeds[p] += 1
    if str(m.get("final_run", m.get("first_run", ""))).lower().startswith("caught"): caught[p] += 1
rows = ["| Id | Level | `fix:` commits for defects the check established | Open known findings (signature) | Seeded mutations caught with a concrete replay / kept |", "|---|---|---|---|---|"]
for i in range(1, 21):
    p = f"C{i:02d}"
    rows.append(f"| {p} | {lv.get(p,'-')} | {', '.join(fixed[p]) or '–'} | {'; '.join(opn[p]) or '–'} | {caught[p]}/{seeds[p]} |")
txt = open(f"{R}/DESIGN.md").read()
b, e = "<!-- BEGIN generated per-property table -->", "<!-- END generated per-property table -->"
new = b + "\n" + "\n".join(rows) + "\n" + e
if b in txt: txt = re.sub(re.escape(b) + ".*?" + re.escape(e), lambda _: new, txt, flags=re.S)
else: raise SystemExit("markers missing in DESIGN.md")
open(f"{R}/DESIGN.md", "w").write(txt); print(len(rows) - 2, "rows")
