#!/bin/bash
# usage: retrial_list.sh <listfile> <log> [jobs]
export LOG=$2
one() { d=$1; name=$(basename $d); id=${name:0:3}; ck=$id
  [ -f $d/check_id ] && ck=$(cat $d/check_id)
  p=$d/patch.diff; [ -f $d/patch.rebased.diff ] && p=$d/patch.rebased.diff
  out=$(TAIL=200 /verif/tools/trymut.sh $ck $p 2>&1)
  ex=$(echo "$out" | grep -o "exit=[0-9]*" | tail -1)
  nv=$(echo "$out" | grep "^VIOLATION prop" | grep -vc "no-failing-input-found")
  nu=$(echo "$out" | grep "^VIOLATION prop" | grep -c "no-failing-input-found")
  na=$(echo "$out" | grep -c "DOES NOT APPLY")
  first=$(echo "$out" | grep "^VIOLATION prop" | grep -v no-failing | head -2 | sed 's#.*replay=/verif/replay/##' | tr '\n' ' ')
  echo "$name [$ck]: $ex concrete=$nv unproved=$nu noapply=$na | $first" >> $LOG; }
export -f one
cat $1 | xargs -P ${3:-6} -I{} bash -c 'one {}'
echo "DONE $1" >> $LOG
