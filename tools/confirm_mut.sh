#!/bin/bash
# usage: confirm_mut.sh <ID> <mutdir> <name>   — confirm a seeded mutation in a scratch worktree and store it under /verif/seeded/<name>
# mutdir holds patch.diff, one demo *_test.go whose first line is "// <repo-relative path>", notes.txt
set -u
export GOFLAGS=-mod=mod GOPROXY=off GOSUMDB=off GOTOOLCHAIN=local
ID=$1; D=$(readlink -f "$2"); NAME=$3
WT=/tmp/cm_${NAME}_$$
git -C /repo worktree add -q "$WT" HEAD || exit 2
trap 'git -C /repo worktree remove --force "$WT" >/dev/null 2>&1; rm -rf "$WT"' EXIT
DEMO=$(ls "$D"/*_test.go | head -1)
REL=$(head -1 "$DEMO" | sed 's#^// *##; s# .*##')
PKG=$(dirname "$REL")
RUN=${RUN:-$(grep -oE '^func (Test[A-Za-z0-9_]+)' "$DEMO" | head -1 | awk '{print $2}')}
cp "$DEMO" "$WT/$REL"
cd "$WT"
echo "== demo WITHOUT change ($RUN in ./$PKG)"; go test -vet=off -count=1 -run "^$RUN\$" "./$PKG/" >/tmp/cm_$$.a 2>&1; A=$?; tail -2 /tmp/cm_$$.a | cut -c1-200
git apply --check "$D/patch.diff" || { echo "PATCH DOES NOT APPLY"; exit 2; }
PKGS=$(git apply --numstat "$D/patch.diff" | awk '{print $3}' | xargs -n1 dirname | sort -u | sed 's#^#./#; s#$#/...#' | tr '\n' ' ')
# baseline: tests of the touched packages that already fail on the unchanged tree in this sandbox (expired certificates, no DNS)
mv "$WT/$REL" /tmp/cm_$$.demo; go test -vet=off -count=1 $PKGS 2>&1 | grep -E '^\s*--- FAIL' | sed 's/ (.*//' | sort -u >/tmp/cm_$$.base
git apply "$D/patch.diff"
echo "== build with change"; go build ./... ; B=$?
echo "== existing tests of touched packages with change: $PKGS"; go test -vet=off -count=1 $PKGS 2>&1 | grep -E '^\s*--- FAIL' | sed 's/ (.*//' | sort -u >/tmp/cm_$$.t
NEWFAIL=$(comm -13 /tmp/cm_$$.base /tmp/cm_$$.t | wc -l); echo "failing at baseline: $(wc -l </tmp/cm_$$.base), newly failing with change: $NEWFAIL"; comm -13 /tmp/cm_$$.base /tmp/cm_$$.t | head -5
T=$NEWFAIL; mv /tmp/cm_$$.demo "$WT/$REL"
echo "== demo WITH change"; go test -vet=off -count=1 -run "^$RUN\$" "./$PKG/" >/tmp/cm_$$.c 2>&1; C=$?; tail -3 /tmp/cm_$$.c | cut -c1-200
echo "RESULT demo_without=$A build=$B existing_tests=$T demo_with=$C"
if [ $A -eq 0 ] && [ $B -eq 0 ] && [ $T -eq 0 ] && [ $C -ne 0 ]; then
  S=/verif/seeded/$NAME; mkdir -p "$S"; cp "$D/patch.diff" "$S/"; cp "$DEMO" "$S/"; [ -f "$D/notes.txt" ] && cp "$D/notes.txt" "$S/"
  echo "CONFIRMED -> $S  (write meta.json next)"
else echo "NOT CONFIRMED"; fi
rm -f /tmp/cm_$$.*
