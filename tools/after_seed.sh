#!/bin/bash
# usage: after_seed.sh <ID> <wave>  — trial a freshly delivered wave of seeded mutations against ./check <ID>, confirm them, drop the seed agent's worktree
ID=$1; W=${2:-8}
cd /verif
tools/trial.sh $ID $W >> /var/tmp/trial$W.log 2>&1
git -C /repo worktree remove --force /tmp/mut${W}_$ID >/dev/null 2>&1
rm -rf /tmp/mut${W}_$ID
