#!/bin/bash
# usage: trial.sh <ID> <demo-dir-suffix> [check-id]   e.g. trial.sh C16 2  -> trials /tmp/C16_demo2/m1,m2 against ./check C16 and confirms them as C16-w2m1, C16-w2m2
ID=$1; SUF=$2; CK=${3:-$1}
for m in m1 m2; do
  D=/tmp/${ID}_demo${SUF}/$m
  [ -f $D/patch.diff ] || { echo "$ID$SUF-$m: no patch"; continue; }
  out=$(TAIL=200 /verif/tools/trymut.sh $CK $D/patch.diff 2>&1)
  ex=$(echo "$out" | grep -o "exit=[0-9]*" | tail -1)
  nv=$(echo "$out" | grep "^VIOLATION prop" | grep -vc "no-failing-input-found")
  nu=$(echo "$out" | grep "^VIOLATION prop" | grep -c "no-failing-input-found")
  na=$(echo "$out" | grep -c "DOES NOT APPLY")
  first=$(echo "$out" | grep "^VIOLATION prop" | grep -v no-failing | head -2 | sed 's#.*replay=/verif/replay/##' | tr '\n' ' ')
  [ -n "${NOCONFIRM:-}" ] && conf="(confirmation skipped)" || conf=$(/verif/tools/confirm_mut.sh $ID $D ${ID}-w${SUF}${m} 2>&1 | grep "^RESULT\|PATCH DOES" | head -1)
  echo "$ID-w$SUF$m [$CK]: $ex concrete=$nv unproved=$nu noapply=$na | $first | $conf"
done
