#!/usr/bin/env python3
"""Run checks over several seeds and summarise: sweep.py C10,C12 --seeds 1,2,3 [--tier quick] [-j 2]"""
import argparse, subprocess, time, os, concurrent.futures as cf, re, json
ap = argparse.ArgumentParser(); ap.add_argument("ids"); ap.add_argument("--seeds", default="1,2,3"); ap.add_argument("--tier", default="quick"); ap.add_argument("-j", type=int, default=1)
a = ap.parse_args()
ids = a.ids.split(",") if a.ids != "all" else [c["property_id"] for c in json.load(open("/verif/MANIFEST.json"))["checks"]]
jobs = [(i, s) for s in a.seeds.split(",") for i in ids]
def run(job):
    i, s = job; t = time.time()
    p = subprocess.run(["./check", i, "--tier", a.tier], cwd="/verif", env=dict(os.environ, VERIF_SEED=s), stdout=subprocess.PIPE, stderr=subprocess.STDOUT, text=True)
    viol = [l for l in p.stdout.split("\n") if l.startswith("VIOLATION") or l.startswith("KNOWN-FINDING")]
    last = p.stdout.strip().split("\n")[-1] if p.stdout.strip() else ""
    return i, s, p.returncode, round(time.time() - t, 1), viol, last
# same ID must not run concurrently with itself (shared facts file): group by id when -j > 1
with cf.ThreadPoolExecutor(a.j) as ex:
    for i, s, rc, dt, viol, last in ex.map(run, jobs):
        print(f"{i} seed={s} rc={rc} {dt}s {last[:140]}")
        for v in viol: print("   ", v[:200])
