#!/usr/bin/env python3
"""Run the repository's test suite (guard off, as in BASELINE.json) on a tree and compare with stable_pass.
usage: baseline_check.py [repo_dir]   (default /repo)"""
import json, subprocess, sys, os
repo = sys.argv[1] if len(sys.argv) > 1 else "/repo"
base = json.load(open("/root/.vp/BASELINE.json"))
stable = set(base["stable_pass"])
env = dict(os.environ, GOFLAGS="-mod=mod", GOPROXY="off", GOSUMDB="off", GOTOOLCHAIN="local")
passed, failed = set(), set()
for m in [".", "./vcr/pe/schema/gen"]:
    p = subprocess.Popen(["go", "test", "-json", "-vet=off", "-count=1", "-timeout", "25m", "./..."], cwd=os.path.join(repo, m), env=env, stdout=subprocess.PIPE, stderr=subprocess.DEVNULL, text=True)
    for line in p.stdout:
        try: e = json.loads(line)
        except Exception: continue
        if e.get("Test") and e.get("Action") in ("pass", "fail"):
            (passed if e["Action"] == "pass" else failed).add(f'{e["Package"]}::{e["Test"]}')
    p.wait()
missing = sorted(stable - passed)
print(f"stable_pass={len(stable)} passed_now={len(passed)} failed_now={len(failed)} stable_not_passing={len(missing)}")
for x in missing[:40]: print("  NOT PASSING:", x, "(failed)" if x in failed else "(not run)")
sys.exit(1 if missing else 0)
