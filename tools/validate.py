#!/usr/bin/env python3-vt
import json, jsonschema, glob, sys
m = json.load(open('/verif/MANIFEST.json'))
jsonschema.validate(m, json.load(open('/root/.vp/MANIFEST.schema.json')))
es = json.load(open('/root/.vp/EVIDENCE.schema.json'))
for f in sorted(glob.glob('/verif/evidence/*.json')):
    try:
        jsonschema.validate(json.load(open(f)), es); print('ok', f)
    except Exception as e:
        print('INVALID', f, str(e)[:300])
print('manifest valid;', len(m['checks']), 'checks')
