#!/usr/bin/env python3
"""Write meta.json for wave-N seeded mutations from the seed agent's notes.txt and the trial logs.
usage: automesta.py <suffix> [final_log]"""
import json, os, re, sys, glob
suf = sys.argv[1]
first = {}
for l in open(f"/var/tmp/trial{suf}.log"):
    m = re.match(r"(C\d\d)-w(\d)m(\d) \[(C\d\d)\]: exit=(\d+) concrete=(\d+) unproved=(\d+)", l)
    if m: first[f"{m.group(1)}-w{m.group(2)}m{m.group(3)}"] = (int(m.group(5)), int(m.group(6)), int(m.group(7)), l.split("|")[1].strip() if "|" in l else "")
final = {}
if len(sys.argv) > 2 and os.path.exists(sys.argv[2]):
    for l in open(sys.argv[2]):
        m = re.match(r"(C\d\d)-w(\d)m(\d) \[(C\d\d)\]: exit=(\d+) concrete=(\d+) unproved=(\d+)", l)
        if m: final[f"{m.group(1)}-w{m.group(2)}m{m.group(3)}"] = (int(m.group(5)), int(m.group(6)), int(m.group(7)), l.split("|")[1].strip() if "|" in l else "")
def status(t):
    if t is None: return "not re-run"
    ex, c, u, r = t
    if ex == 0: return "MISSED (exit 0)"
    if c: return f"caught: exit 1 with {c} concrete replay(s) ({r})"
    return "detected only as broken proof obligation / correspondence: exit 1, no-failing-input-found"
for d in sorted(glob.glob(f"/verif/seeded/C??-w{suf}m?")):
    name = os.path.basename(d); prop = name[:3]
    notes = open(os.path.join(d, "notes.txt"), errors="replace").read() if os.path.exists(os.path.join(d, "notes.txt")) else ""
    lines = [x.strip() for x in notes.split("\n") if x.strip()]
    breaks = " ".join(lines[:8])[:700]
    needs = next((x for x in lines if re.search(r"\bneed", x, re.I)), "see notes.txt")[:400]
    meta = {"property": prop, "origin": f"independent sub-agent, wave {suf} (given the property text, its own scratch worktree, and one-line descriptions of earlier mutations to avoid)",
            "breaks": breaks, "needs": needs,
            "confirmed": f"tools/confirm_mut.sh {prop} /tmp/{prop}_demo{suf}/m{name[-1]} {name}: demo passes without the change; with it `go build ./...` ok, no existing test of the touched packages newly fails, demo fails",
            "first_run": status(first.get(name)), "final_run": status(final.get(name)) if final else "see DESIGN.md section 0",
            "detected_by": f"./check {prop} via tools/trymut.sh — first run: {status(first.get(name))}" + (f"; after the builder's follow-up: {status(final.get(name))}" if final else "")}
    json.dump(meta, open(os.path.join(d, "meta.json"), "w"), indent=1)
    print(name, "|", meta["first_run"][:40], "|", meta["final_run"][:50])
