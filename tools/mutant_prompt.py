#!/usr/bin/env python3
"""prints the prompt for an independent mutation agent: ONLY the property text + a scratch worktree path"""
import json, sys
pid, wt = sys.argv[1], sys.argv[2]
wave = sys.argv[3] if len(sys.argv) > 3 else ""
import glob, os
used = []
for d in sorted(glob.glob(f"/verif/seeded/{pid}-*m?")):
    try: used.append("- " + json.load(open(os.path.join(d, "meta.json")))["breaks"][:260])
    except Exception: pass

p = [json.loads(l) for l in open('/verif/properties.jsonl') if json.loads(l)['id'] == pid][0]
print(f"""You are testing how well a semantic property of a Go code base is guarded. You work ONLY inside your own scratch git worktree of the repository nuts-foundation/nuts-node at {wt} (a Go decentralized-identity server: did:web/did:nuts, verifiable credentials, OAuth/OpenID4VP auth, gossip-replicated DAG transaction network). Do not read or write anything outside {wt} and /tmp/{pid}_demo{wave} (in particular never look at /verif or /repo). The sandbox has no network; for every shell call use: export GOFLAGS=-mod=mod GOPROXY=off GOSUMDB=off GOTOOLCHAIN=local

The property (id {pid}): "{p['title']}"
Statement: {p['statement']}
It is meant to hold for: {p['quantifier']['text']}
Files in which the mechanisms live: {', '.join(p['anchors']['files'])}

""" + ("Mutations that other people have ALREADY produced for this property (do not repeat these mechanisms or code sites; find different ones, preferably in other files/functions of the list above or breaking another clause of the statement):\n" + "\n".join(used) + "\n\n" if wave and used else "") + f"""Your task: produce TWO different, independent, realistic changes (mutations) to the production code (non-test .go files) in {wt}, each of which BREAKS this property while the repository still compiles (`go build ./...`) and the EXISTING tests of the packages you touched still pass unedited (`go test -vet=off -count=1 ./<pkg>/...`). Each change should look like a plausible refactoring slip, optimisation or "simplification" a developer could make (a few lines), and should need something SPECIFIC to manifest — a particular interleaving, a crash or fault at a particular point, a multi-step sequence of operations, an unusual input, or two cooperating sites that each look fine alone — not something ordinary use or the existing tests would expose at once. The two mutations should use different mechanisms / different code sites.

For each mutation deliver, under /tmp/{pid}_demo{wave}/m1 and /tmp/{pid}_demo{wave}/m2:
  - patch.diff : `git diff` of the production change only (relative to the worktree's HEAD), applying cleanly with `git apply` at the repository root;
  - a demonstration: a NEW Go test file (give its repository-relative path as the first comment line; it must not already exist) or a small program, which FAILS (or prints VIOLATED) with the change applied and PASSES (prints OK) without it; state the exact command to run it;
  - notes.txt : which part of the property it breaks, what it needs in order to manifest, and the commands you ran with their outcomes (build, existing tests of touched packages with the change, demonstration with and without the change).
Verify all of that yourself before finishing: (1) change applied: build ok, existing package tests pass, demo fails; (2) change reverted (`git checkout -- .` but keep the demo file): demo passes. Leave the worktree clean (git checkout -- . and remove untracked demo files from it) when done; the deliverables live only in /tmp/{pid}_demo{wave}. Finish with a short summary (<= 25 lines) of both mutations.""")
