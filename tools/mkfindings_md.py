#!/usr/bin/env python3
"""Renders known_findings.json as FINDINGS.md (referenced from DESIGN.md section 0)."""
import json
k = json.load(open('/verif/known_findings.json'))['findings']
out = ["# Findings register (generated from known_findings.json by tools/mkfindings_md.py)\n",
       "`fixed` entries suppress nothing (the check passes on the repaired tree and reports the violation again if it returns);",
       "`open` entries suppress exactly the violation whose signature matches and print one `KNOWN-FINDING:` line per run.\n",
       "| Property | Status | Commit | Signature | What failed |", "|---|---|---|---|---|"]
for e in sorted(k, key=lambda e: (e['property'], e.get('status', 'open'), str(e.get('commit', '')))):
    what = (e.get('line') or e.get('what') or '').replace('|', '\\|').replace('\n', ' ')
    out.append(f"| {e['property']} | {e.get('status','open')} | {e.get('commit','–')} | `{e['signature'][:90]}` | {what[:330]} |")
open('/verif/FINDINGS.md', 'w').write("\n".join(out) + "\n")
from collections import Counter
print(Counter(e.get('status', 'open') for e in k))
