#!/bin/bash
# trials every delivered wave-N mutation set once: trial_all.sh <suffix>; results appended to /var/tmp/trial<suffix>.log
SUF=$1; LOG=/var/tmp/trial$SUF.log; touch $LOG
for id in C01 C02 C03 C04 C05 C06 C07 C08 C09 C10 C11 C12 C13 C14 C15 C16 C17 C18 C19 C20; do
  D=/tmp/${id}_demo$SUF
  [ -f $D/m1/notes.txt ] && [ -f $D/m2/notes.txt ] || continue
  grep -q "^$id-w${SUF}m2" $LOG && continue
  /verif/tools/trial.sh $id $SUF >> $LOG 2>&1
done
