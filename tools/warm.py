#!/usr/bin/env python3
"""Build every harness test binary once (warms the Go build cache); binaries are discarded."""
import os, sys, importlib, concurrent.futures as cf
sys.path.insert(0, os.path.dirname(os.path.dirname(os.path.abspath(__file__))))
import vlib, json
def warm(pid):
    try:
        mod = importlib.import_module("props." + pid)
    except Exception as e:
        return pid, "no module: %r" % e
    ctx = vlib.Ctx(pid, "quick", 1)
    res = []
    try:
        for (pkg, files, name) in getattr(mod, "HARNESSES", [(getattr(mod, "PKG", None), getattr(mod, "HARNESS", []), pid.lower())]):
            if pkg is None:
                continue
            b = ctx.go_test_binary(pkg, files, name)
            res.append(f"{pkg}:{'ok' if b else 'FAILED'}")
    finally:
        import shutil; shutil.rmtree(ctx.scratch, ignore_errors=True)
    return pid, " ".join(res)
ids = [c["property_id"] for c in json.load(open(os.path.join(vlib.ROOT, "MANIFEST.json")))["checks"]]
with cf.ThreadPoolExecutor(4) as ex:
    for pid, r in ex.map(warm, ids):
        print("[warm]", pid, r)
