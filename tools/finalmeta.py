#!/usr/bin/env python3
"""writes the `final_run` field of every seeded/<name>/meta.json from a retrial log (tools/retrial.sh)"""
import json, os, re, sys
log = sys.argv[1] if len(sys.argv) > 1 else "/var/tmp/retrial.log"
res = {}
for l in open(log):
    m = re.match(r"(\S+) \[(C\d\d)\]: exit=(\d+) concrete=(\d+) unproved=(\d+) noapply=(\d+) \| (.*)", l)
    if m: res[m.group(1)] = (m.group(2), int(m.group(3)), int(m.group(4)), int(m.group(5)), int(m.group(6)), m.group(7).strip())
n = {"caught": 0, "unproved": 0, "missed": 0, "noapply": 0}
for name, (ck, ex, c, u, na, first) in sorted(res.items()):
    p = f"/verif/seeded/{name}/meta.json"
    if not os.path.exists(p): continue
    meta = json.load(open(p))
    ob = f"/verif/seeded/{name}/obsolete.txt"
    if os.path.exists(ob):
        s = "obsolete after a later fix: commit (no failing input exists any more): " + open(ob).read().strip()[:300] + (f" — the check still exits {ex} on the changed source" if not na else ""); n.setdefault("obsolete", 0); n["obsolete"] += 1
    elif na: s = "patch no longer applies to the current tree (later fix: commits changed the site); not re-run"; n["noapply"] += 1
    elif ex == 0: s = "MISSED (exit 0)"; n["missed"] += 1
    elif c: s = f"caught: exit 1 with {c} concrete replay(s) ({first}) by ./check {ck}"; n["caught"] += 1
    else: s = "detected only as broken proof obligation / correspondence: exit 1, no-failing-input-found"; n["unproved"] += 1
    meta["final_run"] = s
    json.dump(meta, open(p, "w"), indent=1)
print(n, "of", len(res))
