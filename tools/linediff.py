#!/usr/bin/env python3
"""Show, compactly, where two line-protocol outputs differ (first N differing lines)."""
import sys, re
def parts(l): return re.split(r' \|\|? ', l)
def snippet(x, y, w=70):
    i = 0
    while i < min(len(x), len(y)) and x[i] == y[i]: i += 1
    s = max(0, i - w)
    return f"@{i}: A=…{x[s:i+w]}…\n      B=…{y[s:i+w]}…"
def main():
    a = open(sys.argv[1]).read().split('\n'); b = open(sys.argv[2]).read().split('\n')
    n = int(sys.argv[3]) if len(sys.argv) > 3 else 3
    bad = [i for i in range(max(len(a), len(b))) if (a[i] if i < len(a) else None) != (b[i] if i < len(b) else None)]
    print(f"lines A={len(a)} B={len(b)} differing={len(bad)} first={bad[:10]}")
    for i in bad[:n]:
        pa = parts(a[i]) if i < len(a) else []; pb = parts(b[i]) if i < len(b) else []
        for k in range(max(len(pa), len(pb))):
            x = pa[k] if k < len(pa) else '<none>'; y = pb[k] if k < len(pb) else '<none>'
            if x != y:
                print(f" line {i} part {k}: {snippet(x, y)}")
                break
main()
