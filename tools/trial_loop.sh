#!/bin/bash
# keeps trialling newly delivered wave-<suffix> mutations until all 20 properties have been processed (or 4 h pass)
SUF=$1; end=$(( $(date +%s) + 14400 ))
while [ $(date +%s) -lt $end ]; do
  /verif/tools/trial_all.sh $SUF
  n=$(grep -c "w${SUF}m2" /var/tmp/trial$SUF.log 2>/dev/null)
  [ "${n:-0}" -ge 20 ] && break
  sleep 240
done
