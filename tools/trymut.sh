#!/bin/bash
# usage: trymut.sh <ID> <patch.diff> [extra check args]  — run ./check <ID> against a scratch worktree of /repo with the patch applied
# (does not touch /repo itself, so parallel work there is not disturbed)
set -u
ID=$1; PATCH=$(readlink -f "$2"); shift 2
WT=/tmp/mc_${ID}_$$
git -C /repo worktree add -q "$WT" HEAD || exit 2
trap 'git -C /repo worktree remove --force "$WT" >/dev/null 2>&1; rm -rf "$WT"' EXIT
# the tree moves (fix: commits): fall back to a 3-way apply, then to a fuzzy patch(1), before giving up
if ! git -C "$WT" apply "$PATCH" 2>/dev/null; then
  if git -C "$WT" apply --3way "$PATCH" >/dev/null 2>&1 && ! git -C "$WT" diff --name-only --diff-filter=U | grep -q .; then git -C "$WT" reset -q; echo "(patch applied 3-way)"
  elif git -C "$WT" checkout -q -- . && patch -d "$WT" -p1 -s -F3 --no-backup-if-mismatch < "$PATCH" >/dev/null 2>&1 && (cd "$WT" && GOFLAGS=-mod=mod GOPROXY=off GOSUMDB=off GOTOOLCHAIN=local go build ./... >/dev/null 2>&1); then echo "(patch applied with fuzz)"
  else echo "PATCH DOES NOT APPLY"; exit 2; fi
fi
# private copy of the Lean project (sources + build cache) and facts: the trial never touches the shared ones
FR=/dev/shm/vtrial.$ID.$$; mkdir -p "$FR/facts"; cp -a /verif/lean "$FR/lean"
trap 'git -C /repo worktree remove --force "$WT" >/dev/null 2>&1; rm -rf "$WT" "$FR"' EXIT
cd /verif && VERIF_FACTROOT="$FR" VERIF_REPO="$WT" ./check "$ID" "$@" 2>&1 | tail -${TAIL:-15}
echo "exit=${PIPESTATUS[0]}"
