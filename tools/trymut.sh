#!/bin/bash
# usage: trymut.sh <ID> <patch.diff> [extra check args]  — run ./check <ID> against a scratch worktree of /repo with the patch applied
# (does not touch /repo itself, so parallel work there is not disturbed)
set -u
ID=$1; PATCH=$(readlink -f "$2"); shift 2
WT=/tmp/mc_${ID}_$$
git -C /repo worktree add -q "$WT" HEAD || exit 2
trap 'git -C /repo worktree remove --force "$WT" >/dev/null 2>&1; rm -rf "$WT"' EXIT
if ! git -C "$WT" apply "$PATCH"; then echo "PATCH DOES NOT APPLY"; exit 2; fi
# private copy of the Lean project (sources + build cache) and facts: the trial never touches the shared ones
FR=/dev/shm/vtrial.$ID.$$; mkdir -p "$FR/facts"; cp -a /verif/lean "$FR/lean"
trap 'git -C /repo worktree remove --force "$WT" >/dev/null 2>&1; rm -rf "$WT" "$FR"' EXIT
cd /verif && VERIF_FACTROOT="$FR" VERIF_REPO="$WT" ./check "$ID" "$@" 2>&1 | tail -${TAIL:-15}
echo "exit=${PIPESTATUS[0]}"
