#!/bin/bash
# re-trials all delivered mutations of all waves (no re-confirmation), 4 properties in parallel; log: /var/tmp/trial_final.log
export NOCONFIRM=1
LOG=/var/tmp/trial_final.log; : > $LOG
run_id() { id=$1; for suf in "" 2 3 4 5 6 7; do [ -d /tmp/${id}_demo$suf ] && /verif/tools/trial.sh $id "$suf" >> $LOG 2>&1; done; }
export -f run_id; export LOG
printf "%s\n" C01 C02 C03 C04 C05 C06 C07 C08 C09 C10 C11 C12 C13 C14 C15 C16 C17 C18 C19 C20 | xargs -P 4 -I{} bash -c 'run_id {}'
echo DONE >> $LOG
