#!/usr/bin/env python3
"""mkmeta.py <name> <property> <breaks> <needs> <detected_by>  -> seeded/<name>/meta.json"""
import json, sys
name, prop, breaks, needs, det = sys.argv[1:6]
json.dump({"property": prop, "origin": "independent sub-agent given only the property text and its own scratch worktree",
           "breaks": breaks, "needs": needs,
           "confirmed": f"tools/confirm_mut.sh {prop} <dir> {name}: demo passes without the change; with it `go build ./...` ok, existing tests of the touched packages pass unedited, demo fails",
           "detected_by": det}, open(f"/verif/seeded/{name}/meta.json", "w"), indent=1)
print("ok", name)
