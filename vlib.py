"""Shared machinery for ./check <ID>: fact extraction, Lean build + axiom audit, harness build via
`go test -overlay`, model driver, line diff, known findings, evidence. stdlib only."""
import fcntl, glob, hashlib, importlib, json, os, re, shutil, subprocess, sys, tempfile, time

ROOT = os.path.dirname(os.path.abspath(__file__))
REPO = os.environ.get("VERIF_REPO", "/repo")
# VERIF_FACTROOT: a trial run (tools/trymut.sh) works on its own copy of lean/ + facts/ so that it never rewrites the
# shared generated Facts files / build outputs while builders or other checks use them
FACTROOT = os.environ.get("VERIF_FACTROOT", ROOT)
LEAN = os.path.join(FACTROOT, "lean")
BIN = os.path.join(LEAN, ".lake", "build", "bin")
ALLOWED_AXIOMS = {"propext", "Classical.choice", "Quot.sound"}
FORBIDDEN = re.compile(r"\bsorry\b|(^|by|;|<;>|·|=>)\s*admit\s*($|;|<;>)|^\s*axiom\s|native_decide|bv_decide|implemented_by|\bunsafe\s|maxHeartbeats\s+0")

GOENV = dict(GOFLAGS="-mod=mod", GOPROXY="off", GOSUMDB="off", GOTOOLCHAIN="local",
             CGO_ENABLED=os.environ.get("CGO_ENABLED", "1"))

TRUSTED_BASE_COMMON = [
    "Lean 4.33.0 kernel (lake build; thorough tier re-checks with leanchecker)",
    "axioms allowed in property theorems: propext, Classical.choice, Quot.sound (audited by #audit_module on every run)",
    "/verif/extract (go/ast fact extractor) prints what the source says; expectations are Lean theorems over the generated defs",
    "the Go correspondence harness, its canonicaliser and the line diff; Go compiler/runtime",
]


def sh(cmd, cwd=None, env=None, timeout=None, inp=None):
    e = dict(os.environ)
    e.update(GOENV)
    if env:
        e.update(env)
    p = subprocess.run(cmd, cwd=cwd, env=e, shell=isinstance(cmd, str), stdout=subprocess.PIPE,
                       stderr=subprocess.STDOUT, timeout=timeout, input=inp, text=True, errors="replace")
    return p.returncode, p.stdout


class Ctx:
    def __init__(self, pid, tier, seed, replay=None):
        self.id, self.tier, self.seed, self.replay = pid, tier, seed, replay
        self.t0 = time.time()
        base = "/dev/shm" if os.path.isdir("/dev/shm") and os.access("/dev/shm", os.W_OK) else "/var/tmp"
        base = os.environ.get("VERIF_SCRATCH", base)
        self.scratch = tempfile.mkdtemp(prefix=f"verif.{pid}.", dir=base)
        self.violations = []      # (replay_path, text, no_input_found)
        self.known_hits = []      # texts
        self.obligations = []     # (name, ok:bool, detail)
        self.cov = {"evaluations": 0, "distinct_nontrivial": 0, "samples": [], "traces_validated_against_impl": 0}
        self.assumptions = []
        self.trusted = list(TRUSTED_BASE_COMMON)
        self.level = "proof"
        self.notes = []
        self.known = load_known().get(pid, [])
        self.thorough = tier == "thorough"

    # ---------- logging
    def log(self, *a):
        print(f"[{self.id} {time.time()-self.t0:6.1f}s]", *a, flush=True)

    # ---------- obligations
    def oblige(self, name, ok, detail=""):
        self.obligations.append((name, bool(ok), detail))
        if not ok:
            self.log(f"OBLIGATION FAILED: {name} {detail[:300]}")
        return ok

    # ---------- facts
    def facts(self):
        """regenerate lean/NutsModel/Facts/<ID>.lean + facts/<ID>.json from /repo's working tree"""
        exe = os.path.join(self.scratch, "extract")
        # built per property from main.go + c<nn>*.go only, so properties cannot break each other's extractor
        xd = os.path.join(ROOT, "extract")
        srcs = ["main.go"] + sorted(os.path.basename(p) for p in glob.glob(os.path.join(xd, self.id.lower() + "*.go")))
        rc, out = sh(["go", "build", "-o", exe] + srcs, cwd=xd)
        if rc != 0:
            raise RuntimeError("extractor build failed:\n" + out)
        with LakeLock(self.id):
            rc, out = sh([exe, self.id, REPO], env={"VERIF_ROOT": FACTROOT})
        if rc != 0:
            self.oblige("facts:extract", False, out)
            return None
        with open(os.path.join(FACTROOT, "facts", self.id + ".json")) as f:
            self.fact_values = json.load(f)
        self.oblige("facts:extract", True)
        return self.fact_values

    # ---------- lean
    def lake(self, targets, timeout=3000):
        with LakeLock(self.id):
            rc, out = sh(["lake", "build"] + list(targets), cwd=LEAN, timeout=timeout)
        return rc == 0, out

    def lean_run(self, text, timeout=900):
        """elaborate a scratch Lean file inside the project (lake env lean)"""
        p = os.path.join(self.scratch, f"q{len(os.listdir(self.scratch))}.lean")
        with open(p, "w") as f:
            f.write(text)
        rc, out = sh(["lake", "env", "lean", p], cwd=LEAN, timeout=timeout)
        return rc == 0, out

    def build_and_audit(self, modules, exe=True):
        """build property modules (+ driver), audit axioms of every theorem in them, scan for forbidden tokens.
        Returns dict theorem -> axioms for theorems that exist. Failing modules are recorded as failed obligations."""
        exe_t = "nm_" + self.id
        # cross-property composition modules (props/compose.json: {"Cxx": ["NutsProofs.Props.Compose…"]}) are built and
        # audited together with the property whose statement they strengthen
        try:
            extra = json.load(open(os.path.join(ROOT, "props", "compose.json"))).get(self.id, [])
        except (OSError, ValueError):
            extra = []
        modules = list(modules)
        extra = [m for m in extra if m not in modules]
        targets = list(modules) + ([exe_t] if exe else [])
        ok, out = self.lake(targets)
        self.lake_log = out
        thms = {}
        # A composition module imports the property modules of OTHER properties too. When it does not build because one
        # of THOSE no longer builds (their source facts changed), that is the other property's obligation and is reported
        # by its own check; this property is then decided without the composition. When the composition module itself (or
        # this property's own modules) fails, it is a failed obligation here.
        for m in extra:
            okx, outx = self.lake([m])
            if okx:
                modules.append(m)
                continue
            failedx = sorted(set(re.findall(r"^- (\S+)", outx, re.M)))
            foreign = [f for f in failedx if "Compose" not in f and re.search(r"C\d\d", f) and self.id not in f]
            if foreign:
                self.log(f"composition module {m} not decided here: upstream module(s) {','.join(foreign)} do not build "
                         f"(reported by the owning property's check)")
                self.compose_skipped = getattr(self, "compose_skipped", []) + [(m, foreign)]
            else:
                errs = re.findall(r"^error: (.*)$", outx, re.M)
                self.oblige("lake-build:" + (",".join(failedx) or m), False, "\n".join(errs[:12]))
        if not ok:
            failed = sorted(set(re.findall(r"^- (\S+)", out, re.M)))
            errs = re.findall(r"^error: (.*)$", out, re.M)
            self.oblige("lake-build:" + ",".join(failed or modules), False, "\n".join(errs[:12]))
            self.failed_modules = failed
            # try modules one by one so the healthy ones are still audited
            good = []
            for m in modules:
                ok1, _ = self.lake([m])
                if ok1:
                    good.append(m)
            if exe:
                self.lake([exe_t])
            modules = good
        else:
            self.failed_modules = []
        if modules:
            text = "".join(f"import {m}\n" for m in modules) + "import NutsProofs.AuditCmd\n" + \
                   "".join(f"#audit_module {m}\n" for m in modules)
            ok2, out2 = self.lean_run(text)
            for m in re.finditer(r"AUDIT (\S+) \[(.*?)\]", out2):
                axs = [a.strip() for a in m.group(2).split(",") if a.strip()]
                thms[m.group(1)] = axs
            if not ok2 and not thms:
                self.oblige("axiom-audit", False, out2[-2000:])
        for name, axs in sorted(thms.items()):
            bad = [a for a in axs if a not in ALLOWED_AXIOMS]
            self.oblige("thm:" + name, not bad, "axioms: " + ",".join(axs))
        # forbidden tokens in the import closure of the property's modules + driver (comments stripped)
        hits = []
        for p in self.import_closure(list(modules) + (["Driver." + self.id] if exe else [])):
            src = open(p, errors="replace").read()
            src = re.sub(r"/-.*?-/", lambda m: "\n" * m.group(0).count("\n"), src, flags=re.S)
            for i, line in enumerate(src.split("\n"), 1):
                line = line.split("--")[0]
                if FORBIDDEN.search(line):
                    hits.append(f"{os.path.relpath(p, LEAN)}:{i}: {line.strip()[:80]}")
        self.oblige("no-sorry/axiom/native_decide in import closure", not hits, "; ".join(hits[:5]))
        self.theorems = thms
        if self.thorough and modules:
            with LakeLock(self.id):
                rc, out3 = sh(["lake", "env", "leanchecker"] + list(modules), cwd=LEAN, timeout=3000)
            self.oblige("leanchecker:" + ",".join(modules), rc == 0, out3[-500:])
        return thms

    def import_closure(self, modules):
        """source files of the given project modules and everything they import inside the project"""
        seen, todo, files = set(), list(modules), []
        while todo:
            m = todo.pop()
            if m in seen:
                continue
            seen.add(m)
            p = os.path.join(LEAN, *m.split(".")) + ".lean"
            if not os.path.exists(p):
                continue
            files.append(p)
            for imp in re.findall(r"^\s*(?:public\s+)?import\s+(?:all\s+)?([\w.]+)", open(p, errors="replace").read(), re.M):
                todo.append(imp)
        return files

    def lean_eval(self, imports, expr):
        """#eval a (decidable/Bool/String) expression in the project; returns stripped output or None"""
        ok, out = self.lean_run("".join(f"import {i}\n" for i in imports) + f"#eval {expr}\n")
        return out.strip() if ok else None

    # ---------- go harness
    def go_test_binary(self, pkg, files, name, extra_overlay=None, tags="verif"):
        """build a test binary for /repo package `pkg` with harness files (paths under harness/inpkg) overlaid"""
        rep = {}
        for f in files:
            src = os.path.join(ROOT, "harness", "inpkg", f)
            rep[os.path.join(REPO, f)] = src
        if extra_overlay:
            rep.update(extra_overlay)
        ov = os.path.join(self.scratch, name + ".overlay.json")
        with open(ov, "w") as fh:
            json.dump({"Replace": rep}, fh)
        out = os.path.join(self.scratch, name + ".test")
        rc, log = sh(["go", "test", "-c", "-vet=off", "-tags", tags, "-overlay", ov, "-o", out, "./" + pkg], cwd=REPO, timeout=1800)
        if rc != 0 or not os.path.exists(out):
            self.harness_error = log
            return None
        return out

    def run_harness(self, binary, test, env, outdir=None, timeout=1800, cwd=None):
        outdir = outdir or os.path.join(self.scratch, "out")
        os.makedirs(outdir, exist_ok=True)
        e = {"VERIF_OUT": outdir, "VERIF_SEED": str(self.seed), "VERIF_TIER": self.tier}
        e.update({k: str(v) for k, v in env.items()})
        rc, log = sh([binary, "-test.run", "^" + test + "$", "-test.count=1", "-test.timeout", f"{timeout}s"], env=e,
                     cwd=cwd or outdir, timeout=timeout + 60)
        return rc, log, outdir

    def model(self, area, ops, out):
        with open(ops) as fi, open(out, "w") as fo:
            p = subprocess.run([os.path.join(BIN, "nm_" + area)], stdin=fi, stdout=fo, stderr=subprocess.PIPE, text=True)
        return p.returncode == 0, p.stderr

    @staticmethod
    def read_lines(p):
        with open(p, errors="replace") as f:
            return f.read().split("\n")

    def compare(self, impl_path, model_path):
        a, b = self.read_lines(impl_path), self.read_lines(model_path)
        if a and a[-1] == "":
            a.pop()
        if b and b[-1] == "":
            b.pop()
        bad = [i for i in range(max(len(a), len(b))) if (a[i] if i < len(a) else None) != (b[i] if i < len(b) else None)]
        return a, b, bad

    # ---------- violations / findings
    def replay_dir(self):
        d = os.path.join(ROOT, "replay", self.id)
        os.makedirs(d, exist_ok=True)
        return d

    def violation(self, signature, what, replay_name, replay_text, no_input=False):
        """signature identifies the specific failing input/call site/history; matched against known_findings.json"""
        for k in self.known:
            if k.get("status", "open") == "open" and re.fullmatch(k["signature"], signature):
                # one line per LISTED finding (not per matching case)
                msg = f"KNOWN-FINDING: property={self.id} {k['what']} [signature: {k['signature']}]"
                if msg not in self.known_hits:
                    self.known_hits.append(msg)
                self.known_cases = getattr(self, "known_cases", 0) + 1
                return False
        path = os.path.join(self.replay_dir(), replay_name)
        with open(path, "w") as f:
            f.write(replay_text if replay_text.endswith("\n") else replay_text + "\n")
        self.violations.append((path, f"{signature}: {what}", no_input))
        self.log("VIOLATION candidate:", signature, what[:200])
        return True

    def unproved(self, names, detail):
        txt = "The following theorems / correspondences no longer check and no failing input was found:\n" + \
              "\n".join(names) + "\n\n" + detail
        self.violation("unproved:" + ",".join(names)[:200], "proof obligation or correspondence broken", "unproved.txt", txt, no_input=True)

    # ---------- evidence + exit
    def finish(self):
        n_obl = len(self.obligations)
        n_ok = sum(1 for o in self.obligations if o[1])
        failed = [o for o in self.obligations if not o[1]]
        cov = dict(self.cov)
        cov.update({
            "obligations": n_obl, "discharged": n_ok,
            "checker_cmd": f"cd /verif && ./check {self.id} --tier {self.tier}  (extract facts -> lake build -> #audit_module axioms -> go test -overlay harness -> nutsmodel driver -> line diff)",
            "trusted_base": self.trusted,
            "obligation_list": [{"name": n, "ok": ok, "detail": d[:300]} for n, ok, d in self.obligations],
            "failed_obligations": [n for n, ok, d in failed],
            "known_findings_hit": self.known_hits,
            "notes": self.notes,
        })
        if hasattr(self, "fact_values"):
            cov["facts"] = self.fact_values
        cov["samples"] = cov.get("samples", [])[:6] or [o[0] for o in self.obligations[:3]]
        level = self.level
        if level not in ("exploration", "fault_enumeration", "model_checking", "proof", "translation_validation", "other"):
            cov["level_text"] = str(level)      # plugins may describe a partial level in words; the schema wants the enum
            level = "proof"
        ev = {"property_id": self.id, "tier": self.tier, "seed": self.seed, "level": level,
              "coverage": cov, "assumptions": self.assumptions, "wall_s": round(time.time() - self.t0, 2),
              "violations": len(self.violations)}
        # a replay run re-executes one stored case, and a trial against a scratch tree (VERIF_REPO) is not a run on
        # /repo: neither is a coverage run, so neither rewrites the evidence file
        if not self.replay and os.path.realpath(REPO) == "/repo":
            os.makedirs(os.path.join(ROOT, "evidence"), exist_ok=True)
            with open(os.path.join(ROOT, "evidence", self.id + ".json"), "w") as f:
                json.dump(ev, f, indent=1)
        for k in self.known_hits:
            print(k)
        for path, text, no_input in self.violations:
            print(f"  ({text[:300]})")
            print(f"VIOLATION property={self.id} replay={path}" + (" no-failing-input-found" if no_input else ""))
        shutil.rmtree(self.scratch, ignore_errors=True)
        print(f"[{self.id}] obligations {n_ok}/{n_obl}, evaluations {cov.get('evaluations')}, "
              f"violations {len(self.violations)}, known findings hit {len(self.known_hits)}, {ev['wall_s']}s")
        return 1 if self.violations else 0


class LakeLock:
    """serialises Lean builds / fact regeneration of the SAME property; different properties run concurrently"""
    def __init__(self, pid="any"):
        self.pid = pid

    def __enter__(self):
        os.makedirs(os.path.join(LEAN, ".lake"), exist_ok=True)
        self.f = open(os.path.join(LEAN, ".lake", f"verif.{self.pid}.lock"), "w")
        fcntl.flock(self.f, fcntl.LOCK_EX)

    def __exit__(self, *a):
        fcntl.flock(self.f, fcntl.LOCK_UN)
        self.f.close()


def load_known():
    p = os.path.join(ROOT, "known_findings.json")
    if not os.path.exists(p):
        return {}
    d = {}
    for e in json.load(open(p)).get("findings", []):
        d.setdefault(e["property"], []).append(e)
    return d


def main(argv):
    import argparse
    ap = argparse.ArgumentParser()
    ap.add_argument("id")
    ap.add_argument("--tier", default=os.environ.get("VERIF_TIER", "quick"))
    ap.add_argument("--replay")
    a = ap.parse_args(argv)
    seed = int(os.environ.get("VERIF_SEED", "1") or 1)
    os.chdir(ROOT)
    sys.path.insert(0, ROOT)
    mod = importlib.import_module("props." + a.id)
    ctx = Ctx(a.id, a.tier if a.tier in ("quick", "thorough") else "quick", seed, a.replay)
    # overall time budget: a check never runs unbounded (a changed tree may make a harness hang)
    import signal
    budget = int(os.environ.get("VERIF_BUDGET_S", "1500" if ctx.tier == "quick" else "5400"))
    def _over(signum, frame):
        raise TimeoutError(f"check exceeded its {budget} s time budget ({ctx.tier} tier): a harness or build is hanging")
    signal.signal(signal.SIGALRM, _over)
    signal.alarm(budget)
    try:
        mod.run(ctx)
        signal.alarm(0)
    except Exception as e:  # machinery failure: the property is not shown to hold
        signal.alarm(0)
        import traceback
        traceback.print_exc()
        ctx.oblige("check-machinery", False, repr(e))
        ctx.unproved(["check-machinery"], repr(e))
    # any failed obligation without a concrete violation => unproved
    failed = [n for n, ok, d in ctx.obligations if not ok]
    if failed and not ctx.violations:
        ctx.unproved(failed, "\n".join(f"{n}: {d}" for n, ok, d in ctx.obligations if not ok))
    return ctx.finish()
